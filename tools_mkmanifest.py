import json,sys
NA = {
 "C01":"pure function of (symbolic circuit, parameter values, input batch, flags): no schedule, clock, fault, crash point or history for a simulator to own",
 "C02":"fold/optimise equivalence is a function of (circuit, flags, parameters, input) only; its registry clause is exercised as a mechanism of C10 but the equivalence itself has no history",
 "C03":"integrate = marginal is a function of (circuit, scope, parameters, input); nothing to schedule or fault",
 "C04":"multiply = pointwise product or refusal is a function of the operand pair",
 "C05":"differentiate = ordered partial derivatives is a function of (circuit, order)",
 "C06":"evidence / concatenate semantics are functions of (circuit, observation / operand list)",
 "C07":"conjugate semantics is a function of the circuit",
 "C08":"structural predicates are functions of the layer scopes of one or two circuits",
 "C09":"operator preconditions and result structure are functions of the operator arguments",
 "C11":"IntegrateQuery = per-sample marginal is a function of (compiled circuit, batch, mask)",
 "C13":"autograd gradients = true derivatives is a function of (circuit, parameters, input, flags)",
 "C14":"each parameter node = its tensor function: function of (node, shapes, axis, inputs)",
 "C16":"region-graph constructions are functions of their arguments and explicit seeds; the dump/load clause promises a round trip, nothing under faults",
 "C20":"templates compute their formulas: function of (template arguments, parameters, index tuple)",
}
CHECKS = {
 "C10": ("5.1","Seeded search over pipeline histories of the real compiler and torch graphs: in-place updates of learnable and non-learnable tensors (optimiser steps incl. joint parameter lists, perturbations, resets, faults in the middle of a reset, loads incl. assign=True and edited dictionaries), late and composite derivations through every public route, aborted compilations with retries, another context compiling the same symbolic objects, mode switches, restarts. After every mutating step each live circuit is compared with a same-flags recompilation of its dereferenced clone (R1) and with a new derivation from dereferenced operands (R1'); storage identity of learnables, the model's own copy of the compiler's parameter registry and operator-defining relations that held at birth are re-checked. Exploration, not proof: the space of histories is unbounded."),
 "C12": ("5.2","Seeded search over training histories (optimiser steps, perturbations, resets, loads, restarts; float64 and float32) of circuits built by the region-graph, data-modality, graphical-model and tensor-factorisation templates and by DAG recipes with their normalised settings; total mass - brute force over all joint states, the compiled integral (also integrated in stages), IntegrateQuery - is re-checked as a conservation law after every update, together with non-negativity and finiteness on in-support inputs."),
 "C15": ("5.3","The simulator owns the random stream: seeded sample / perturb / reset / recompile sequences on normalised circuits (region graphs, DAGs, sparse-support and signature inputs, wide domains, very large sample counts); every sample batch is checked for shape, support, per-column attribution and, by exact binomial tests of all joint cells, single and pairwise marginals (Bonferroni, total level 1e-9), against the exact probabilities obtained by exhaustive evaluation of the compiled circuit; noise and independence of Gaussian columns by exact tests."),
 "C17": ("5.4","Seeded search over reset / reset-burst / update / load / restart histories on circuits whose fold groups mix initialisers (constants incl. twin, wide, near-uniform, tiny and complex tables, uniform, normal, Dirichlet with every axis, shared initialiser objects); every symbolic tensor parameter's registry slice is checked against its own declared initialiser straight after every compilation and after every reset, pooled distribution tests at the end of a run."),
 "C18": ("5.5","Seeded search over call histories across several pipeline contexts and bare operator registries with nested blocks, exceptional exits, injected mid-compile faults, refusals and retries, checked step by step against a stack + bimap model; operator functions are compared with (and their refusals judged against) the symbolic route under the context's own registry."),
 "C19": ("5.6","Seeded search over save / mutate / restart / load histories with a simulated durable store, quiet (unobserved) updates, read-only queries, loads with assign=True and a second context; a version-memo model and a direct comparison demand that any saved state reads back exactly into a freshly compiled, freshly initialised instance under a new hash order; key layout, exactly-once and completeness of the dictionary are checked at every save / restart."),
}
claimed = sys.argv[1:]
m = {
 "version":1,
 "setup_cmd":"/venv/bin/python -c \"import torch, numpy, scipy, cirkit, os; assert os.path.realpath(cirkit.__file__).startswith('/repo/'), cirkit.__file__\"",
 "hooks":{"guard":"CIRKIT_VERIF","enable":"no hooks in /repo: every seam is installed at run time by /verif/cirsim/seams.py (monkeypatching public classes); checks import /repo's working tree directly","baseline_off_cmd":"cd /repo && /venv/bin/python -m pytest -ra -q -p no:cacheprovider --timeout=900 --continue-on-collection-errors","source_commits":[],"add_only":True},
 "engines":[{"name":"cirsim","path":"/verif/cirsim","serves_properties":claimed,"kind_free_text":"deterministic simulation with fault injection: seeded plans (operations + faults + hash order + RNG seeds) executed against the real cirkit code in one process, reference-model oracles, ddmin shrinking, replay files"}],
 "checks":[],
 "not_applicable":[],
 "notes":"Exit codes of ./check: 0 held on everything explored; 1 + VIOLATION line; 2 harness failure / no verdict (also when fewer than 2 % of the runs were non-trivial). Known findings are read from known_findings.json and never written at run time (none at present; four repaired defects are listed there as fixed). Self-tests: ./check selftest determinism [N], ./check selftest stats, /venv/bin/python mutants/mutants.py, seeded/recheck_all.sh.",
}
for c in claimed:
    ref,text=CHECKS[c]
    m["checks"].append({
      "property_id":c,
      "quick_cmd":f"./check {c} --tier quick",
      "thorough_cmd":f"./check {c} --tier thorough",
      "evidence_file":f"/verif/evidence/{c}.json",
      "replay_cmd_template":f"./check {c} --replay {{path}}",
      "engine":"cirsim",
      "level_claimed":{"category":"exploration","text":text,"design_ref":ref},
      "level_note":"Trusted: PyTorch (autograd, optimisers, state_dict, torch.save/load), float64 arithmetic within the stated tolerances, the harness's reference models (dereferenced recompilation, brute-force sums, stack/bimap model). Sampling, not enumeration.",
      "technique":"deterministic simulation with fault injection (seeded operation/fault/hash-order schedules, reference-model oracle, ddmin replay)",
    })
for k,v in NA.items():
    m["not_applicable"].append({"property_id":k,"reason":v})
for c in CHECKS:
    if c not in claimed:
        m["not_applicable"].append({"property_id":c,"reason":"simulation world designed (DESIGN.md section %s) but its check is not built yet; not claimed until it is"%CHECKS[c][0]})
json.dump(m,open('/verif/MANIFEST.json','w'),indent=1)
