#!/bin/sh
# tools/soak.sh <tier> <seed> [<seed> ...]   - run every claimed check once per seed; evidence and
# replays go to ./soak_out (never to the committed evidence); prints one line per (seed, property).
TIER="$1"; shift
HERE="$(cd "$(dirname "$0")/.." && pwd)"; cd "$HERE" || exit 2
mkdir -p soak_out/evidence soak_out/replays
export CIRSIM_EVIDENCE_DIR="$HERE/soak_out/evidence" CIRSIM_REPLAY_DIR="$HERE/soak_out/replays"
for S in "$@"; do
  for P in C10 C12 C15 C17 C18 C19; do
    OUT=$(VERIF_SEED=$S timeout 7200 ./check $P --tier $TIER 2>&1); RC=$?
    echo "seed=$S prop=$P rc=$RC $(echo "$OUT" | grep '^runs=')"
    if [ $RC -ne 0 ]; then echo "$OUT" | grep -v WARNING | tail -12; fi
    echo "$OUT" | grep 'NO-VERDICT' 
  done
done
echo SOAK-DONE
