"""Circuit recipes: JSON objects from which symbolic circuits are built deterministically
through cirkit's public construction API (DESIGN.md section 3)."""

from __future__ import annotations

import functools
import random
from typing import Any

import numpy as np

from .kernel import HarnessError

Recipe = dict[str, Any]


# ---------------------------------------------------------------------------
# region graphs


def gen_rg(rng: random.Random, *, max_vars: int = 5, image_ok: bool = True) -> Recipe:
    algos = ["rbt", "rbt", "linear", "ff"]
    if image_ok:
        algos += ["qt", "qg", "pd"]
    algo = rng.choice(algos)
    if algo == "rbt":
        n = rng.randint(2, max_vars)
        reps = rng.choice([1, 1, 2])
        return {"algo": "rbt", "n": n, "reps": reps, "seed": rng.randrange(10**6)}
    if algo == "linear":
        n = rng.randint(2, max_vars)
        reps = rng.choice([1, 1, 2])
        return {
            "algo": "linear",
            "n": n,
            "reps": reps,
            "randomize": reps > 1 or rng.random() < 0.3,
            "seed": rng.randrange(10**6),
        }
    if algo == "ff":
        return {"algo": "ff", "n": rng.randint(2, min(4, max_vars)), "reps": rng.choice([1, 2])}
    shapes = [(1, 2, 2), (1, 1, 3), (1, 2, 1), (1, 1, 2)]
    if max_vars >= 6:
        shapes += [(1, 2, 3), (1, 3, 2)]
    shape = rng.choice(shapes)
    if algo == "qt":
        return {"algo": "qt", "shape": list(shape), "splits": rng.choice([2, 4])}
    if algo == "qg":
        return {"algo": "qg", "shape": list(shape)}
    return {"algo": "pd", "shape": list(shape), "delta": [1]}


def gen_long_rg(rng: random.Random) -> Recipe:
    """More than 128 variables (thin circuits): index tensors, fold counts and layer counts beyond
    what fits a signed byte."""
    n = rng.randint(129, 140)
    if rng.random() < 0.5:
        return {"algo": "linear", "n": n, "reps": 1, "randomize": rng.random() < 0.5,
                "seed": rng.randrange(10**6)}
    return {"algo": "ff", "n": n, "reps": rng.choice([1, 2])}


def rg_num_vars(rg: Recipe) -> int:
    if "n" in rg:
        return int(rg["n"])
    c, h, w = rg["shape"]
    return int(c * h * w)


def build_rg(rg: Recipe) -> Any:
    from cirkit.templates.region_graph import (
        FullyFactorized,
        LinearTree,
        PoonDomingos,
        QuadGraph,
        QuadTree,
        RandomBinaryTree,
    )

    a = rg["algo"]
    if a == "rbt":
        return RandomBinaryTree(rg["n"], num_repetitions=rg["reps"], seed=rg["seed"])
    if a == "linear":
        return LinearTree(
            rg["n"], num_repetitions=rg["reps"], randomize=rg["randomize"], seed=rg["seed"]
        )
    if a == "ff":
        return FullyFactorized(rg["n"], num_repetitions=rg["reps"])
    if a == "qt":
        return QuadTree(tuple(rg["shape"]), num_patch_splits=rg["splits"])
    if a == "qg":
        return QuadGraph(tuple(rg["shape"]))
    if a == "pd":
        return PoonDomingos(tuple(rg["shape"]), delta=rg["delta"])
    raise HarnessError(f"unknown rg algo {a}")


# ---------------------------------------------------------------------------
# parameterisations and input layers


def _param_factory(spec: Recipe) -> Any:
    """spec: {"act", "init", "dtype", "init_kwargs"} -> ParameterFactory."""
    from cirkit.templates.utils import Parameterization, parameterization_to_factory

    return parameterization_to_factory(
        Parameterization(
            activation=spec.get("act", "none"),
            initialization=spec.get("init", "normal"),
            dtype=spec.get("dtype", "real"),
            initialization_kwargs=dict(spec.get("init_kwargs", {})),
            activation_kwargs=dict(spec.get("act_kwargs", {})),
        )
    )


def _input_factory(inp: Recipe) -> Any:
    from cirkit.symbolic.layers import (
        BinomialLayer,
        CategoricalLayer,
        EmbeddingLayer,
        GaussianLayer,
        PolynomialLayer,
    )

    t = inp["type"]
    if t == "categorical":
        kw: dict[str, Any] = {"num_categories": inp["k"]}
        p = inp.get("param", "default")
        if p == "logits":
            kw["logits_factory"] = _param_factory({"act": "none", "init": "normal"})
        elif p == "softmax":
            kw["probs_factory"] = _param_factory({"act": "softmax", "init": "normal"})
        elif p == "dirichlet":
            kw["probs_factory"] = _param_factory({"act": "none", "init": "dirichlet"})
        return functools.partial(CategoricalLayer, **kw)
    if t == "binomial":
        kw = {"total_count": inp["k"]}
        p = inp.get("param", "default")
        if p == "logits":
            kw["logits_factory"] = _param_factory({"act": "none", "init": "normal"})
        elif p == "sigmoid":
            kw["probs_factory"] = _param_factory({"act": "sigmoid", "init": "normal"})
        return functools.partial(BinomialLayer, **kw)
    if t == "gaussian":
        return functools.partial(GaussianLayer)
    if t == "embedding":
        kw = {"num_states": inp["k"]}
        act = inp.get("act", "none")
        dtype = inp.get("dtype", "real")
        if act != "none" or dtype != "real" or inp.get("init", "normal") != "normal":
            kw["weight_factory"] = _param_factory(
                {"act": act, "init": inp.get("init", "normal"), "dtype": dtype}
            )
        return functools.partial(EmbeddingLayer, **kw)
    if t == "polynomial":
        return functools.partial(PolynomialLayer, degree=inp["degree"])
    if t == "gaussian_sig":
        # 'signature' Gaussians (C15 attribution): unit u of variable v has mean 10*v + u and a
        # tiny standard deviation, so round(sample) identifies (variable, unit)
        from cirkit.symbolic.parameters import ConstantParameter, Parameter

        sigma = float(inp.get("sigma", 1e-3))

        def gauss_factory(scope: Any, num_units: int) -> Any:
            (v,) = tuple(scope)
            mean = np.array([10.0 * v + u for u in range(num_units)])
            return GaussianLayer(
                scope, num_units,
                mean=Parameter.from_input(ConstantParameter(num_units, value=mean)),
                stddev=Parameter.from_input(ConstantParameter(num_units, value=sigma)),
            )

        return gauss_factory
    if t == "mixed_sig":
        # signature Gaussians on the even variables, one-hot categoricals on the odd ones (k = number
        # of units, so the emitted category identifies the unit): circuits that mix discrete and
        # continuous input layers through a per-variable factory
        from cirkit.symbolic.parameters import ConstantParameter, Parameter

        sigma = float(inp.get("sigma", 1e-3))
        shift = int(inp.get("shift", 0))

        def mixed_factory(scope: Any, num_units: int) -> Any:
            (v,) = tuple(scope)
            if v % 2 == 0:
                mean = np.array([10.0 * v + u for u in range(num_units)])
                return GaussianLayer(
                    scope, num_units,
                    mean=Parameter.from_input(ConstantParameter(num_units, value=mean)),
                    stddev=Parameter.from_input(ConstantParameter(num_units, value=sigma)),
                )
            k = num_units
            tab = np.zeros((num_units, k))
            for u in range(num_units):
                tab[u, (v + u + shift) % k] = 1.0
            return CategoricalLayer(
                scope, num_units, num_categories=k,
                probs=Parameter.from_input(ConstantParameter(num_units, k, value=tab)),
            )

        return mixed_factory
    if t == "categorical_sparse":
        # constant, sparse (some exactly-zero) probability tables, rows summing to one: gives
        # the circuit a non-trivial support.  'onehot': unit u of variable v always emits
        # (v + u + shift) % k.
        from cirkit.symbolic.parameters import ConstantParameter, Parameter

        k = int(inp["k"])

        def cat_factory(scope: Any, num_units: int) -> Any:
            (v,) = tuple(scope)
            if inp.get("onehot"):
                tab = np.zeros((num_units, k))
                for u in range(num_units):
                    tab[u, (v + u + int(inp.get("shift", 0))) % k] = 1.0
            else:
                rs = np.random.RandomState(int(inp["seed"]) + 97 * v)
                tab = rs.uniform(0.1, 1.0, size=(num_units, k))
                mask = rs.uniform(size=(num_units, k)) < 0.45
                for u in range(num_units):
                    if mask[u].all():
                        mask[u, rs.randint(k)] = False
                tab[mask] = 0.0
                tab = tab / tab.sum(axis=1, keepdims=True)
            return CategoricalLayer(
                scope, num_units, num_categories=k,
                probs=Parameter.from_input(ConstantParameter(num_units, k, value=tab)),
            )

        return cat_factory
    raise HarnessError(f"unknown input type {t}")


def input_domain(inp: Recipe) -> tuple[str, int]:
    """("discrete", number of states) or ("real", 0)."""
    t = inp["type"]
    if t in ("categorical", "embedding", "categorical_sparse"):
        return "discrete", int(inp["k"])
    if t == "mixed_sig":
        return "real", 0
    if t == "binomial":
        return "discrete", int(inp["k"]) + 1
    return "real", 0


def gen_input(
    rng: random.Random, *, monotonic: bool, kinds: list[str] | None = None, normalized: bool = False
) -> Recipe:
    if kinds is None:
        kinds = ["categorical", "categorical", "gaussian", "embedding", "binomial"]
    t = rng.choice(kinds)
    if t == "categorical":
        # raw 'probs' tensors (Dirichlet-initialised, no activation) are only valid while they
        # stay normalised, which no unconstrained update preserves: integrate() documents
        # log Z = 0 for them.  They are therefore not generated for worlds with updates.
        # a Categorical layer given 'logits' is *unnormalised* (its integral is the log-sum-exp of
        # the logits), so it is not one of the normalised settings
        params = ["default", "softmax"] if normalized else ["default", "softmax", "logits"]
        return {"type": t, "k": rng.randint(2, 4), "param": rng.choice(params)}
    if t == "binomial":
        # (a Binomial given 'logits' is still a normalised distribution)
        params = ["default", "sigmoid", "logits"]
        return {"type": t, "k": rng.randint(1, 3), "param": rng.choice(params)}
    if t == "gaussian":
        return {"type": t}
    if t == "embedding":
        if normalized:
            return {"type": t, "k": rng.randint(2, 4), "act": "softmax"}
        acts = ["softplus", "softmax", "sigmoid"] if monotonic else [
            "none", "none", "softplus", "softmax"]
        return {"type": t, "k": rng.randint(2, 4), "act": rng.choice(acts)}
    if t == "polynomial":
        return {"type": t, "degree": rng.randint(1, 3)}
    raise HarnessError(t)


def gen_sum(rng: random.Random, *, monotonic: bool, normalized: bool = False) -> Recipe:
    if normalized:
        return {"act": "softmax", "init": rng.choice(["normal", "uniform"])}
    if monotonic:
        act = rng.choice(["softmax", "softplus", "sigmoid", "positive-clamp"])
        init = "uniform" if act == "positive-clamp" else rng.choice(["normal", "uniform"])
        spec: Recipe = {"act": act, "init": init}
        if act == "positive-clamp":
            # boundary values of the hyper-parameters on purpose: a bound that is exactly 0.0
            r = rng.random()
            if r < 0.4:
                spec["act_kwargs"] = {"vmin": 0.0, "vmax": rng.choice([1.0, 2.0])}
            elif r < 0.6:
                spec["act_kwargs"] = {"vmin": 0.05}
        return _init_kwargs(rng, spec)
    act = rng.choice(["none", "none", "softmax", "softplus", "positive-clamp"])
    init = rng.choice(["normal", "uniform", "dirichlet"])
    spec = {"act": act, "init": init}
    if act == "positive-clamp":
        spec["act_kwargs"] = rng.choice([{"vmin": 0.0, "vmax": 1.0}, {"vmin": -0.5, "vmax": 0.0},
                                         {"vmin": 0.0}])
    return _init_kwargs(rng, spec)


def _init_kwargs(rng: random.Random, spec: Recipe) -> Recipe:
    if spec["init"] == "uniform" and rng.random() < 0.3:
        spec["init_kwargs"] = {"a": rng.choice([0.0, -1.0, 0.2]), "b": rng.choice([0.5, 2.0])}
    elif spec["init"] == "normal" and rng.random() < 0.3:
        spec["init_kwargs"] = {"mean": rng.choice([0.0, 1.0]), "stddev": rng.choice([0.5, 2.0])}
    return spec


# ---------------------------------------------------------------------------
# region-graph circuits


def gen_rg_circuit(
    rng: random.Random,
    *,
    monotonic: bool,
    max_vars: int = 5,
    normalized: bool = False,
    kinds: list[str] | None = None,
    rg: Recipe | None = None,
    allow_classes: bool = True,
) -> Recipe:
    if rg is None:
        rg = gen_rg(rng, max_vars=max_vars)
    sp = rng.choice(["cp", "cp", "cp-t", "tucker"])
    ns = rng.randint(1, 3)
    ni = ns if sp in ("cp-t", "tucker") else rng.randint(1, 3)
    if sp == "tucker":
        # keep units**arity small: the product of two such circuits squares it again
        ns = ni = rng.randint(1, 2)
    nc = rng.choice([1, 1, 1, 2, 3]) if allow_classes else 1
    return fix_units({
        "kind": "rg",
        "rg": rg,
        "input": gen_input(rng, monotonic=monotonic, kinds=kinds, normalized=normalized),
        "sp": sp,
        "sum": gen_sum(rng, monotonic=monotonic, normalized=normalized),
        "nary": rng.choice(["mixing", "same"]),
        "ni": ni,
        "ns": ns,
        "nc": nc,
    })


def fix_units(r: Recipe) -> Recipe:
    """cp-t and tucker need inputs and sums of equal width; tucker units are kept small."""
    if r["sp"] == "tucker":
        r["ns"] = min(r["ns"], 2)
    if r["sp"] in ("cp-t", "tucker"):
        r["ni"] = r["ns"]
    return r


def make_complex(r: Recipe) -> Recipe:
    """Complex parameters: no real-only activation may be applied to them."""
    r["sum"] = {"act": "none", "init": "normal", "dtype": "complex"}
    if r["input"]["type"] == "embedding":
        r["input"] = {"type": "embedding", "k": r["input"]["k"], "act": "none", "dtype": "complex"}
    return r


def build_rg_circuit(r: Recipe) -> Any:
    from cirkit.symbolic.parameters import mixing_weight_factory

    rg = build_rg(r["rg"])
    sum_wf = _param_factory(r["sum"])
    nary = None
    if r.get("nary") == "mixing":
        nary = functools.partial(mixing_weight_factory, param_factory=sum_wf)
    return rg.build_circuit(
        input_factory=_input_factory(r["input"]),
        sum_product=r["sp"],
        sum_weight_factory=sum_wf,
        nary_sum_weight_factory=nary,
        num_input_units=r["ni"],
        num_sum_units=r["ns"],
        num_classes=r["nc"],
    )


# ---------------------------------------------------------------------------
# entry points


def build(recipe: Recipe) -> Any:
    k = recipe["kind"]
    if k == "rg":
        return build_rg_circuit(recipe)
    if k == "template":
        from .templates_recipes import build_template

        return build_template(recipe)
    if k == "hand":
        from .hand_recipes import build_hand

        return build_hand(recipe)
    if k == "dag":
        from .dag_recipes import build_dag

        return build_dag(recipe)
    raise HarnessError(f"unknown recipe kind {k}")


def recipe_domain(recipe: Recipe) -> tuple[str, int]:
    if recipe["kind"] in ("rg", "dag"):
        return input_domain(recipe["input"])
    if "domain" in recipe:
        return recipe["domain"][0], int(recipe["domain"][1])
    raise HarnessError("recipe without domain")


def layer_digest(sc: Any) -> str:
    """Digest of the layer sequence of a symbolic circuit (types, shapes, scopes, wiring) -
    used to decide whether a rebuilt circuit is 'the same symbolic circuit'."""
    import hashlib

    idx = {l: i for i, l in enumerate(sc.layers)}
    h = hashlib.sha256()
    for l in sc.layers:
        ins = [idx[i] for i in sc.layer_inputs(l)]
        ps = [(n, tuple(p.shape), [type(x).__name__ for x in p.nodes]) for n, p in l.params.items()]
        h.update(
            repr(
                (
                    type(l).__name__,
                    l.num_input_units,
                    l.num_output_units,
                    l.arity,
                    tuple(sc.layer_scope(l)),
                    ins,
                    ps,
                )
            ).encode()
        )
    h.update(repr([idx[o] for o in sc.outputs]).encode())
    return h.hexdigest()[:16]


def probe_inputs(
    rng: random.Random, domain: tuple[str, int], num_vars: int, batch: int
) -> np.ndarray:
    kind, k = domain
    if kind == "discrete":
        return np.array(
            [[rng.randrange(k) for _ in range(num_vars)] for _ in range(batch)], dtype=np.int64
        )
    return np.array(
        [[round(rng.uniform(-1.5, 1.5), 3) for _ in range(num_vars)] for _ in range(batch)],
        dtype=np.float64,
    )
