"""W-C: the sampling world (C15, DESIGN.md section 5.3).

The *schedule* of this property is the random stream: the simulator owns it
(``torch.manual_seed(op.seed)`` before every sampling call).  A plan is a normalised monotonic
circuit, compilation flags and a sequence of operations

    sample(N, seed) | perturb(seed) | reset(seed) | recompile(flags, seed)

Sampling reads the live tensors, so after a perturbation / reset the samples must follow the
*new* distribution - the exact probabilities are recomputed from the compiled circuit itself
(exhaustive evaluation) before every comparison.

Checks per sample operation:
  Q1 shape (N, |scope|), finite, integer-valued for discrete inputs, inside the domain;
  Q2 support: every returned row has positive probability under the circuit;
  Q3 attribution (signature circuits): column v carries a value only variable v can emit;
  Q4 frequencies: exact two-sided binomial tests of every joint cell, every single-variable
     and every pairwise marginal against the exact probabilities, Bonferroni-corrected to a
     total false-alarm level of 1e-9 per sample operation;
  Q5 refusals: only the documented ``TypeError('Sampling ... not ...')`` of a layer without a
     sampling rule is a refusal; any other exception is a violation (differentially: only when
     the circuit evaluates).
"""

from __future__ import annotations

import itertools
import random
from typing import Any

import numpy as np
import torch

from . import oracles, recipes
from .kernel import H, HarnessError, Trace, Violation, finite
from .seams import seed_rng

ALPHA = 1e-9
MAX_STATES = 70000  # exhaustive evaluation of tiny circuits is cheap: 2 variables x 260 values


# ---------------------------------------------------------------------------
# plans


def _seed(rng: random.Random) -> int:
    return rng.randrange(1, 2**31 - 1)


def _flags(rng: random.Random) -> dict[str, Any]:
    return {"semiring": rng.choice(["sum-product", "lse-sum", "lse-sum"]),
            "fold": rng.random() < 0.6, "optimize": rng.random() < 0.5}


def gen_recipe(rng: random.Random) -> dict[str, Any]:
    r = rng.random()
    # six variables (2x3 / 3x2 grids): inner regions with several partitionings, i.e. sum layers
    # of arity > 1 *and* more than one input unit - with <= 4 variables only the root mixes
    rg = recipes.gen_rg(rng, max_vars=6 if rng.random() < 0.4 else 5)
    # (circuits over 130 variables were tried here too: sampling them through the folded address
    #  book takes minutes per call, so they are only part of the W-A workloads)
    long_ = False
    if r < 0.55:
        rec = recipes.gen_rg_circuit(rng, monotonic=True, normalized=True, rg=rg,
                                     kinds=["categorical", "categorical", "binomial"],
                                     allow_classes=False)
    elif r < 0.8:
        rec = recipes.gen_rg_circuit(rng, monotonic=True, normalized=True, rg=rg,
                                     kinds=["categorical"], allow_classes=False)
        k = rng.randint(2, 4)
        if rng.random() < 0.5:
            rec["input"] = {"type": "categorical_sparse", "k": k, "onehot": True,
                            "shift": rng.randrange(k)}
        else:
            rec["input"] = {"type": "categorical_sparse", "k": k, "seed": rng.randrange(10**6)}
    else:
        rec = recipes.gen_rg_circuit(rng, monotonic=True, normalized=True, rg=rg,
                                     kinds=["categorical"], allow_classes=False)
        if rng.random() < 0.4:
            # discrete and continuous input layers in one circuit (k = number of units >= 2)
            rec["input"] = {"type": "mixed_sig", "sigma": 1e-3, "shift": rng.randrange(3)}
            rec["ni"] = max(2, rec["ni"])
            rec["ns"] = max(2, rec["ns"]) if rec["sp"] in ("cp-t", "tucker") else rec["ns"]
        else:
            rec["input"] = {"type": "gaussian_sig", "sigma": 1e-3}
        # the number of unit combinations enumerated is ni ** num_vars
        rec["ni"] = min(rec["ni"], 3)
        recipes.fix_units(rec)
    if long_:
        rec["ni"] = min(rec["ni"], 2)
        rec["ns"] = min(rec["ns"], 2)
        recipes.fix_units(rec)
        if rec["input"]["type"] not in ("gaussian_sig", "categorical_sparse"):
            rec["input"] = {"type": "categorical_sparse", "k": 3, "onehot": True, "shift": rng.randrange(3)}
    if not long_ and rng.random() < 0.25:
        # not region-graph shaped: a DAG whose inputs / sub-circuits have several parents
        from . import dag_recipes

        dag = dag_recipes.gen_dag(rng, input_spec=rec["input"], sum_spec=rec["sum"], max_vars=4,
                                  min_units=2 if rec["input"]["type"] == "mixed_sig" else 1)
        dag.update({"rg": {"algo": "dag"}, "sp": "dag", "nary": "dense", "ni": dag["units"],
                    "ns": dag["units"]})
        rec = dag
    if rec["kind"] == "rg" and not long_ and rec["input"]["type"] == "categorical" and rng.random() < 0.12:
        # wide domains: two variables with well over a hundred categories each
        rec["rg"] = {"algo": rng.choice(["rbt", "ff"]), "n": 2, "reps": rng.choice([1, 2]),
                     "seed": rng.randrange(10**6)}
        rec["input"]["k"] = rng.choice([127, 128, 129, 200, 255, 256, 257])
        rec["ni"] = min(rec["ni"], 2)
        rec["ns"] = min(rec["ns"], 2)
        recipes.fix_units(rec)
    # sampling reads output [0, 0]; with two classes the root sum has more than one output
    # unit as well (the distribution checked is that of the first output)
    rec["nc"] = 1 if rng.random() < 0.6 else 2
    return rec


def generate(run_seed: int, tier: str) -> dict[str, Any]:
    rng = random.Random(run_seed)
    cfg = _flags(rng)
    if rng.random() < 0.2:
        cfg["dtype"] = "float32"  # the library's default precision, as a swarm member
    rec = gen_recipe(rng)
    big = [1000, 2000, 5000] if tier == "quick" else [1000, 5000, 20000, 50000]
    nvars = rec["nv"] if rec["kind"] == "dag" else recipes.rg_num_vars(rec["rg"])
    if nvars <= 3 and rec["ni"] <= 2 and rng.random() < (0.08 if tier == "quick" else 0.2):
        # very large sample counts (tiny circuits only: the padded samples are (F, K, N, D))
        big = big + [200_001, 250_000, 400_003]
    if nvars > 100:
        big = [64, 200]  # the padded samples are (F, K, N, D): keep N small for 130 variables
    ops: list[dict[str, Any]] = [{"op": "compile", "seed": _seed(rng)}]
    n_ops = rng.randint(3, 7) if tier == "quick" else rng.randint(4, 12)
    for _ in range(n_ops):
        r = rng.random()
        if r < 0.55:
            n = rng.choice(big) if rng.random() < 0.7 else rng.choice([1, 2, 7, 64])
            ops.append({"op": "sample", "n": n, "seed": _seed(rng)})
        elif r < 0.78:
            ops.append({"op": "perturb", "scale": rng.choice([0.5, 1.0, 3.0, 8.0]), "seed": _seed(rng)})
        elif r < 0.88:
            ops.append({"op": "reset", "seed": _seed(rng)})
        else:
            ops.append({"op": "recompile", "flags": _flags(rng), "seed": _seed(rng)})
    if nvars <= 100 and not any(o["op"] == "sample" and o["n"] >= 1000 for o in ops):
        ops.append({"op": "sample", "n": rng.choice(big), "seed": _seed(rng)})
    return {"prop": "C15", "run_seed": run_seed, "tier": tier, "config": cfg, "recipe": rec,
            "ops": ops, "hash_seed": H(run_seed, "hash")}


# ---------------------------------------------------------------------------
# exact distribution of a compiled circuit


class Exact:
    """Exact probabilities of the (discretised) outcomes of a compiled circuit."""

    def __init__(self, states: np.ndarray, probs: np.ndarray, kind: str, k: int) -> None:
        self.states = states  # (S, D) integer outcomes
        self.probs = probs  # (S,)
        self.kind = kind  # "discrete" | "gaussian_sig"
        self.k = k  # values per variable


def exact_distribution(cc: Any, rec: dict[str, Any], semiring: str) -> Exact | None:
    inp = rec["input"]
    D = len(cc.scope)
    if inp["type"] in ("gaussian_sig", "mixed_sig"):
        ni = int(rec["ni"])
        sigma = float(inp["sigma"])
        if ni**D > MAX_STATES:
            return None
        units = oracles.all_states(D, ni)
        X = units.astype(np.float64) + 10.0 * np.arange(D)[None, :]
        ngauss = D
        if inp["type"] == "mixed_sig":
            # odd variables are one-hot categoricals over k = ni values: unit u emits (v+u+shift) % k
            odd = np.arange(D) % 2 == 1
            cat = (np.arange(D)[None, :] + units + int(inp.get("shift", 0))) % ni
            X = np.where(odd[None, :], cat.astype(np.float64), X)
            ngauss = int((~odd).sum())
        y = oracles.evaluate(cc, X)[:, 0, 0]
        logc = ngauss * np.log(sigma * np.sqrt(2 * np.pi))
        if semiring == "sum-product":
            p = y.numpy().astype(np.float64) * np.exp(logc)
        else:
            p = np.exp(y.numpy().astype(np.float64) + logc)
        return Exact(units, p, inp["type"], ni)
    kind, k = recipes.input_domain(inp)
    if kind != "discrete" or k**D > MAX_STATES:
        return None
    states = oracles.all_states(D, k)
    y = oracles.evaluate(cc, states)[:, 0, 0]
    p = y.numpy().astype(np.float64)
    if semiring != "sum-product":
        p = np.exp(p)
    return Exact(states, p, "discrete", k)


# ---------------------------------------------------------------------------
# the statistical oracle


def _binom_two_sided(c: np.ndarray, n: int, p: np.ndarray) -> np.ndarray:
    from scipy import stats

    lo = stats.binom.cdf(c, n, p)
    hi = stats.binom.sf(c - 1, n, p)
    return np.minimum(1.0, 2.0 * np.minimum(lo, hi))


def frequency_tests(rows: np.ndarray, ex: Exact, n: int) -> tuple[int, str | None]:
    """Exact binomial tests of cells and marginals; returns (#tests, message or None)."""
    S, D = ex.states.shape
    k = ex.k
    mult = k ** np.arange(D - 1, -1, -1)
    idx_state = (ex.states * mult).sum(axis=1)
    order = np.argsort(idx_state)
    assert (idx_state[order] == np.arange(S)).all()
    probs = ex.probs[order]
    ridx = (rows * mult).sum(axis=1)
    counts = np.bincount(ridx, minlength=S).astype(np.int64)
    tests: list[tuple[str, np.ndarray, np.ndarray]] = [("joint cell", counts, probs)]
    cgrid = counts.reshape([k] * D)
    pgrid = probs.reshape([k] * D)
    for v in range(D):
        ax = tuple(a for a in range(D) if a != v)
        tests.append((f"marginal of variable {v}", cgrid.sum(axis=ax).reshape(-1), pgrid.sum(axis=ax).reshape(-1)))
    for v, u in itertools.combinations(range(D), 2):
        ax = tuple(a for a in range(D) if a not in (v, u))
        tests.append((f"marginal of variables ({v},{u})", cgrid.sum(axis=ax).reshape(-1),
                      pgrid.sum(axis=ax).reshape(-1)))
    total = sum(t[1].size for t in tests)
    thr = ALPHA / total
    for name, c, p in tests:
        p = np.clip(p, 0.0, 1.0)
        pv = _binom_two_sided(c, n, p)
        j = int(np.argmin(pv))
        if pv[j] < thr:
            return total, (f"{name} #{j}: observed {int(c[j])} of {n} samples, expected "
                           f"{n * p[j]:.1f} (probability {p[j]:.4g}); exact binomial p={pv[j]:.2e} "
                           f"< {thr:.2e} ({total} tests)")
    return total, None


# ---------------------------------------------------------------------------
# the world


class WorldC:
    def __init__(self, plan: dict[str, Any], tr: Trace) -> None:
        self.plan = plan
        self.tr = tr
        self.cfg = dict(plan["config"])
        self.rec = plan["recipe"]
        self.sc: Any = None
        self.cc: Any = None
        self.big_checked = 0
        self.nonuniform = False

    def _compile(self, flags: dict[str, Any], seed: int) -> bool:
        from cirkit.pipeline import PipelineContext

        if self.sc is None:
            try:
                self.sc = recipes.build(self.rec)
            except Exception as e:
                self.tr.count(f"excluded:build:{type(e).__name__}")
                return False
        ctx = PipelineContext(backend="torch", semiring=flags["semiring"], fold=flags["fold"],
                              optimize=flags["optimize"])
        seed_rng(seed)
        try:
            cc = ctx.compile(self.sc)
            D = len(cc.scope)
            oracles.evaluate(cc, np.zeros((1, D), dtype=np.int64 if self._discrete() else np.float64))
        except Exception as e:
            self.tr.count(f"excluded:compile:{type(e).__name__}")
            return False
        self.cc = cc
        self.ctx = ctx
        self.cfg = dict(flags)
        return True

    def _discrete(self) -> bool:
        return self.rec["input"]["type"] not in ("gaussian_sig", "mixed_sig")

    def run(self) -> dict[str, Any]:
        for i, op in enumerate(self.plan["ops"]):
            self.tr.step = i
            kind = op["op"]
            self.tr.count(f"op:{kind}")
            if kind in ("compile", "recompile"):
                ok = self._compile(op.get("flags", self.plan["config"]) if kind == "recompile"
                                   else self.plan["config"], op["seed"])
                self.tr.ev(kind, "ok" if ok else "excluded")
                if not ok and self.cc is None:
                    break
            elif self.cc is None:
                self.tr.ev(kind, "noop")
            elif kind == "perturb":
                self.tr.ev(kind, self.op_perturb(op))
            elif kind == "reset":
                seed_rng(op["seed"])
                self.cc.reset_parameters()
                self.tr.ev(kind, "ok")
            elif kind == "sample":
                self.tr.ev(kind, self.op_sample(op))
            else:
                raise HarnessError(f"unknown op {kind}")
        self.tr.step = len(self.plan["ops"])
        r = self.rec
        key = "|".join(str(x) for x in (
            self.plan["config"]["semiring"], self.plan["config"]["fold"],
            self.plan["config"]["optimize"], r["rg"]["algo"], r["sp"], r["input"]["type"],
            r.get("nary"), r["ni"], r["ns"], ",".join(o["op"] for o in self.plan["ops"])))
        return {"nontrivial": self.big_checked > 0 and self.nonuniform, "shape_key": key}

    def op_perturb(self, op: dict[str, Any]) -> str:
        ps = [p for p in self.cc.parameters() if p.requires_grad]
        if not ps:
            return "noop"
        g = torch.Generator().manual_seed(op["seed"])
        snap = [p.detach().clone() for p in ps]
        with torch.no_grad():
            for p in ps:
                p.add_(float(op["scale"]) * torch.randn(p.shape, generator=g, dtype=p.dtype))
        if not all(finite(p) for p in ps):
            with torch.no_grad():
                for p, s in zip(ps, snap):
                    p.copy_(s)
            return "diverged"
        return "ok"

    def op_sample(self, op: dict[str, Any]) -> str:
        from cirkit.backend.torch.queries import SamplingQuery

        n = int(op["n"])
        cc = self.cc
        D = len(cc.scope)
        semiring = self.cfg["semiring"]
        seed_rng(op["seed"])
        try:
            q = SamplingQuery(cc)
            with torch.no_grad():
                samples, _mix = q(num_samples=n)
        except TypeError as e:
            if "ampling" in str(e) and "not" in str(e):
                # documented refusal of a layer that has no sampling rule
                self.tr.count(f"refusal:{str(e)[:60]}")
                return "refused"
            raise Violation("Q5", f"sampling {n} rows raised TypeError: {str(e)[:160]} [{self._where()}]")
        except Exception as e:
            raise Violation("Q5", f"sampling {n} rows raised {type(e).__name__}: {str(e)[:160]} [{self._where()}]")
        # Q1
        if tuple(samples.shape) != (n, D):
            raise Violation("Q1", f"samples have shape {tuple(samples.shape)}, expected {(n, D)} [{self._where()}]")
        s = samples.detach().cpu().to(torch.float64).numpy()
        if not np.isfinite(s).all():
            raise Violation("Q1", f"samples contain non-finite values [{self._where()}]")
        self.tr.count("samples", n)
        ex = exact_distribution(cc, self.rec, semiring)
        if ex is None:
            # too many joint states to enumerate (e.g. 130 variables): the frequency test is
            # out of reach, shape / domain / attribution are not
            self.tr.count("sample:too-many-states")
            inp = self.rec["input"]
            if inp["type"] in ("gaussian_sig", "mixed_sig"):
                self._attribution(s, inp["type"], int(self.rec["ni"]), D, n)
            else:
                kd = recipes.input_domain(inp)
                if kd[0] == "discrete":
                    self._attribution(s, "discrete", kd[1], D, n)
            return "unchecked"
        tot = float(ex.probs.sum())
        ntol = 1e-4 if self.plan["config"].get("dtype") == "float32" else 1e-6
        if not np.isfinite(ex.probs).all() or abs(tot - 1.0) > ntol or ex.probs.min() < -1e-12:
            # the circuit is not a normalised distribution for these values: C12's subject, and
            # outside the domain of C15
            self.tr.count("sample:circuit-not-normalised")
            return "not-normalised"
        rows = self._attribution(s, ex.kind, ex.k, D, n)
        if ex.kind == "gaussian_sig" and n >= 200:
            self._gaussian_noise(s, float(self.rec["input"]["sigma"]), D, n)
        elif ex.kind == "mixed_sig" and n >= 200:
            cols = [v for v in range(D) if v % 2 == 0]
            self._gaussian_noise(s[:, cols], float(self.rec["input"]["sigma"]), len(cols), n)
        # Q2 support
        mult = ex.k ** np.arange(D - 1, -1, -1)
        ptab = np.zeros(ex.k ** D)
        ptab[(ex.states * mult).sum(axis=1)] = ex.probs
        ridx = (rows * mult).sum(axis=1)
        uniq = np.unique(ridx)
        self.tr.count("cmp:Q2", len(uniq))
        badu = uniq[ptab[uniq] <= 0.0]
        if badu.size:
            u = int(badu[0])
            j = int(np.argmax(ridx == u))
            raise Violation(
                "Q2", f"row {j} = {rows[j].tolist()} was sampled but has probability "
                      f"{ptab[u]:.3g} under the circuit [{self._where()}]")
        if (ex.probs <= 0).any():
            self.tr.count("sample:sparse-support")
        # Q4 frequencies
        if n >= 200:
            ntests, msg = frequency_tests(rows, ex, n)
            self.tr.count("cmp:Q4")
            self.tr.count("cmp:Q4-tests", ntests)
            if msg is not None:
                raise Violation("Q4", f"N={n}: {msg} [{self._where()}]")
            if n >= 1000:
                self.big_checked += 1
                if float(ex.probs.max()) > 1.5 / len(ex.probs) or (ex.probs <= 0).any():
                    self.nonuniform = True
        return "ok"

    def _attribution(self, s: np.ndarray, kind: str, kdom: int, D: int, n: int) -> np.ndarray:
        """Q1 (domain) and Q3 (attribution): returns the samples as integer outcome rows."""
        if kind == "mixed_sig":
            odd = np.arange(D) % 2 == 1
            shift = int(self.rec["input"].get("shift", 0))
            r = np.rint(s)
            unit = r - 10.0 * np.arange(D)[None, :]
            catu = (r - np.arange(D)[None, :] - shift) % kdom  # inverse of (v + u + shift) % k
            bad_g = (np.abs(s - r) > 0.1) | (unit < 0) | (unit >= kdom)
            bad_c = (s != r) | (r < 0) | (r >= kdom)
            bad = np.where(odd[None, :], bad_c, bad_g)
            if bad.any():
                j = int(np.argmax(bad.any(axis=1)))
                raise Violation(
                    "Q3", f"row {j} = {s[j].round(3).tolist()}: some column does not carry the signature "
                          f"of its own variable (even: 10*v + unit, odd: a category in [0, {kdom})) "
                          f"[{self._where()}]")
            self.tr.count("cmp:Q3", n)
            return np.where(odd[None, :], catu, unit).astype(np.int64)
        if kind == "gaussian_sig":
            r = np.rint(s)
            # Q3: column v must carry the signature of variable v (mean 10*v + u, sigma 1e-3)
            unit = r - 10.0 * np.arange(D)[None, :]
            if (np.abs(s - r) > 0.1).any() or (unit < 0).any() or (unit >= kdom).any():
                j = int(np.argmax((np.abs(s - r) > 0.1).any(axis=1) | (unit < 0).any(axis=1) | (unit >= kdom).any(axis=1)))
                raise Violation(
                    "Q3", f"row {j} = {s[j].round(3).tolist()}: some column does not carry the "
                          f"signature of its own variable (expected 10*v + unit, unit < {kdom}) [{self._where()}]")
            self.tr.count("cmp:Q3", n)
            rows = unit.astype(np.int64)
        else:
            r = np.rint(s)
            if np.abs(s - r).max() > 0 or r.min() < 0 or r.max() >= kdom:
                raise Violation(
                    "Q1", f"samples of a discrete circuit are not integers in [0, {kdom}) "
                          f"(range [{s.min()}, {s.max()}]) [{self._where()}]")
            rows = r.astype(np.int64)
            if self.rec["input"].get("onehot"):
                # Q3: unit u of variable v only ever emits (v + u + shift) % k
                k = kdom
                shift = int(self.rec["input"].get("shift", 0))
                ni = int(self.rec["ni"])
                allowed = np.zeros((D, k), dtype=bool)
                for v in range(D):
                    for u in range(ni):
                        allowed[v, (v + u + shift) % k] = True
                ok = allowed[np.arange(D)[None, :], rows]
                self.tr.count("cmp:Q3", n)
                if not ok.all():
                    j = int(np.argmin(ok.all(axis=1)))
                    raise Violation(
                        "Q3", f"row {j} = {rows[j].tolist()}: a column carries a value its variable "
                              f"cannot emit [{self._where()}]")
        return rows

    def _gaussian_noise(self, s: np.ndarray, sigma: float, D: int, n: int) -> None:
        """Q6 (signature Gaussians): the residual of every column around its unit's mean is N(0,
        sigma^2), independently across columns and samples - the *joint* of the continuous parts,
        which the discretised frequency test cannot see."""
        from scipy import stats

        z = (s - np.rint(s)) / sigma  # (n, D)
        self.tr.count("cmp:Q6")
        for v in range(D):
            zv = z[:, v]
            pm = 2.0 * float(stats.norm.sf(abs(float(zv.mean())) * np.sqrt(n)))
            q = float((zv * zv).sum())
            pv = 2.0 * min(float(stats.chi2.cdf(q, n)), float(stats.chi2.sf(q, n)))
            if min(pm, pv) < 1e-10 / D:
                raise Violation(
                    "Q6", f"N={n}: the noise of column {v} around its unit mean has mean {zv.mean():.3f} "
                          f"sigma and variance {q / n:.3f} sigma^2 (p={min(pm, pv):.1e}) [{self._where()}]")
        if D >= 2 and n >= 500:
            c = np.corrcoef(z, rowvar=False)
            np.fill_diagonal(c, 0.0)
            a, b = np.unravel_index(int(np.argmax(np.abs(c))), c.shape)
            npairs = D * (D - 1) // 2
            # under independence sqrt(n) * r is asymptotically N(0,1)
            p = 2.0 * float(stats.norm.sf(abs(float(c[a, b])) * np.sqrt(n)))
            if p < 1e-10 / npairs:
                raise Violation(
                    "Q6", f"N={n}: the noises of columns {a} and {b} are correlated (r={c[a, b]:.3f}, "
                          f"p={p:.1e}): the variables are not sampled independently given their units "
                          f"[{self._where()}]")

    def _where(self) -> str:
        r = self.rec
        return (f"{r['rg']['algo']}/{r['sp']}/{r['input']['type']}/nary={r.get('nary')}/ni={r['ni']}"
                f"/ns={r['ns']} fold={self.cfg['fold']} optimize={self.cfg['optimize']} "
                f"semiring={self.cfg['semiring']}")


def run(plan: dict[str, Any], tr: Trace) -> dict[str, Any]:
    if plan["config"].get("dtype") == "float32":
        torch.set_default_dtype(torch.float32)
        try:
            return WorldC(plan, tr).run()
        finally:
            torch.set_default_dtype(torch.float64)
    return WorldC(plan, tr).run()
