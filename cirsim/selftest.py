"""Self-tests of the machinery (DESIGN.md section 8).

    check selftest determinism [N] [PROPS]   event-log digests of N run seeds per world must be
                                             identical across (a) one process, ascending order,
                                             PYTHONHASHSEED=0 and (b) four fresh processes,
                                             descending order, PYTHONHASHSEED=12345
    check selftest stats [TRIALS]            calibration of the statistical oracles (C15 Q4, C17 N9)
                                             on synthetic samples: silent on the stated
                                             distribution, firing on plausible defects
    (sensitivity: see /verif/mutants/mutants.py)
"""

from __future__ import annotations

import json
import os
import subprocess
import sys

from .kernel import H

VERIF = os.path.dirname(os.path.dirname(os.path.abspath(__file__)))


def _digests(prop: str, verif_seed: int, idxs: list[int]) -> dict[str, str]:
    from . import engine

    out = {}
    for i in idxs:
        plan = engine.generate(prop, H(verif_seed, prop, i), "quick")
        r = engine.execute(plan)
        out[str(i)] = f"{r.digest}|{r.violation and r.violation['inv']}|{bool(r.harness_error)}"
    return out


def _spawn(prop: str, seed: int, idxs: list[int], hashseed: str) -> subprocess.Popen[str]:
    env = dict(os.environ)
    env["PYTHONPATH"] = VERIF + (os.pathsep + env["PYTHONPATH"] if env.get("PYTHONPATH") else "")
    env["PYTHONHASHSEED"] = hashseed
    return subprocess.Popen(
        [sys.executable, "-m", "cirsim.cli", "selftest", "_digests", prop, str(seed),
         ",".join(map(str, idxs))], stdout=subprocess.PIPE, text=True, env=env, cwd=VERIF)


def stats_selftest(trials: int = 400) -> int:
    """Calibration of the statistical oracles on synthetic data (no cirkit involved): they must
    stay silent on samples of the stated distribution and fire on plausible defects."""
    import numpy as np

    from .world_c import Exact, frequency_tests

    rs = np.random.RandomState(12345)
    bad = 0
    # --- C15 / Q4 -----------------------------------------------------------------------
    D, k = 3, 3
    from .oracles import all_states

    states = all_states(D, k)
    false_alarms = misses = 0
    for t in range(trials):
        p = rs.dirichlet(np.full(len(states), 0.7))
        ex = Exact(states, p, "discrete", k)
        n = int(rs.choice([1000, 2000, 5000]))
        idx = rs.choice(len(states), size=n, p=p)
        _, msg = frequency_tests(states[idx], ex, n)
        false_alarms += msg is not None
        # defect: two variable columns swapped (mis-attributed columns)
        rows = states[idx][:, [1, 0, 2]]
        _, msg = frequency_tests(rows, ex, n)
        sym = np.abs(p.reshape(k, k, k) - p.reshape(k, k, k).transpose(1, 0, 2)).max()
        if msg is None and sym > 0.05:
            misses += 1
    print(f"stats C15/Q4: {trials} true samples -> {false_alarms} alarms; {trials} column swaps -> {misses} misses")
    bad += false_alarms + misses
    # --- C17 / N9 -----------------------------------------------------------------------
    from .checks_c17 import C17Checker
    from .kernel import Trace, Violation

    class _W:
        def __init__(self) -> None:
            self.tr = Trace()

    def fires(kind: str, z: "np.ndarray") -> bool:
        c = C17Checker(_W())
        c.pool_z[kind].append(z)
        try:
            c.final()
        except Violation:
            return True
        return False

    fa = sum(fires("normal", rs.normal(size=400)) for _ in range(trials))
    fa += sum(fires("uniform", rs.uniform(size=400)) for _ in range(trials))
    ms = sum(not fires("normal", 1.5 * rs.normal(size=2000)) for _ in range(50))
    ms += sum(not fires("normal", 0.3 + rs.normal(size=2000)) for _ in range(50))
    ms += sum(not fires("uniform", rs.uniform(size=2000) ** 1.5) for _ in range(50))
    ms += sum(not fires("normal", rs.uniform(-1.732, 1.732, size=12000)) for _ in range(50))
    print(f"stats C17/N9: {2 * trials} true pools -> {fa} alarms; 200 defective pools -> {ms} misses")
    bad += fa + ms
    return 1 if bad else 0


def main(argv: list[str]) -> int:
    if argv and argv[0] == "stats":
        return stats_selftest(int(argv[1]) if len(argv) > 1 else 400)
    if argv and argv[0] == "_digests":
        print(json.dumps(_digests(argv[1], int(argv[2]), [int(x) for x in argv[3].split(",")])))
        return 0
    if not argv or argv[0] != "determinism":
        print(__doc__)
        return 2
    n = int(argv[1]) if len(argv) > 1 else 64
    props = argv[2].split(",") if len(argv) > 2 else ["C10", "C12", "C15", "C17", "C18", "C19"]
    seed = int(os.environ.get("VERIF_SEED", "0"))
    bad = 0
    for prop in props:
        idxs = list(range(n))
        pa = [_spawn(prop, seed, idxs[k::4], "0") for k in range(4)]
        rev = idxs[::-1]
        pb = [_spawn(prop, seed, rev[k::3], "12345") for k in range(3)]
        a: dict[str, str] = {}
        b: dict[str, str] = {}
        for p, d in [(p, a) for p in pa] + [(p, b) for p in pb]:
            out, _ = p.communicate(timeout=3600)
            if p.returncode != 0:
                print(f"selftest: worker failed for {prop}")
                return 2
            d.update(json.loads(out.strip().splitlines()[-1]))
        diff = [i for i in a if a[i] != b.get(i)]
        print(f"determinism {prop}: {len(a)} run seeds, {len(diff)} digests differ"
              + (f" (run indices {diff[:10]})" if diff else ""))
        bad += len(diff)
    return 1 if bad else 0
