"""Self-tests of the machinery (DESIGN.md section 8).

    check selftest determinism [N] [PROPS]   event-log digests of N run seeds per world must be
                                             identical across (a) one process, ascending order,
                                             PYTHONHASHSEED=0 and (b) four fresh processes,
                                             descending order, PYTHONHASHSEED=12345
    (sensitivity: see /verif/mutants/mutants.py)
"""

from __future__ import annotations

import json
import os
import subprocess
import sys

from .kernel import H

VERIF = os.path.dirname(os.path.dirname(os.path.abspath(__file__)))


def _digests(prop: str, verif_seed: int, idxs: list[int]) -> dict[str, str]:
    from . import engine

    out = {}
    for i in idxs:
        plan = engine.generate(prop, H(verif_seed, prop, i), "quick")
        r = engine.execute(plan)
        out[str(i)] = f"{r.digest}|{r.violation and r.violation['inv']}|{bool(r.harness_error)}"
    return out


def _spawn(prop: str, seed: int, idxs: list[int], hashseed: str) -> subprocess.Popen[str]:
    env = dict(os.environ)
    env["PYTHONPATH"] = VERIF + (os.pathsep + env["PYTHONPATH"] if env.get("PYTHONPATH") else "")
    env["PYTHONHASHSEED"] = hashseed
    return subprocess.Popen(
        [sys.executable, "-m", "cirsim.cli", "selftest", "_digests", prop, str(seed),
         ",".join(map(str, idxs))], stdout=subprocess.PIPE, text=True, env=env, cwd=VERIF)


def main(argv: list[str]) -> int:
    if argv and argv[0] == "_digests":
        print(json.dumps(_digests(argv[1], int(argv[2]), [int(x) for x in argv[3].split(",")])))
        return 0
    if not argv or argv[0] != "determinism":
        print(__doc__)
        return 2
    n = int(argv[1]) if len(argv) > 1 else 64
    props = argv[2].split(",") if len(argv) > 2 else ["C10", "C12", "C15", "C17", "C18", "C19"]
    seed = int(os.environ.get("VERIF_SEED", "0"))
    bad = 0
    for prop in props:
        idxs = list(range(n))
        pa = [_spawn(prop, seed, idxs[k::4], "0") for k in range(4)]
        rev = idxs[::-1]
        pb = [_spawn(prop, seed, rev[k::3], "12345") for k in range(3)]
        a: dict[str, str] = {}
        b: dict[str, str] = {}
        for p, d in [(p, a) for p in pa] + [(p, b) for p in pb]:
            out, _ = p.communicate(timeout=3600)
            if p.returncode != 0:
                print(f"selftest: worker failed for {prop}")
                return 2
            d.update(json.loads(out.strip().splitlines()[-1]))
        diff = [i for i in a if a[i] != b.get(i)]
        print(f"determinism {prop}: {len(a)} run seeds, {len(diff)} digests differ"
              + (f" (run indices {diff[:10]})" if diff else ""))
        bad += len(diff)
    return 1 if bad else 0
