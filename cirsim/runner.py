"""Parallel seeded search: N worker subprocesses, each exploring a disjoint set of run
indices; results stream back as JSON lines (DESIGN.md section 2.4)."""

from __future__ import annotations

import faulthandler
import hashlib
import json
import os
import resource
import subprocess
import sys
import threading
import time
from collections import Counter
from typing import Any

from .kernel import H

VERIF = os.path.dirname(os.path.dirname(os.path.abspath(__file__)))
PY = sys.executable

TIERS = {
    # property: tier: (wall budget s, max runs, per-run timeout s)
    "quick": {"budget": 75.0, "max_runs": 100000, "run_timeout": 120},
    "thorough": {"budget": 900.0, "max_runs": 10**7, "run_timeout": 300},
}


def load_known() -> dict[str, Any]:
    p = os.path.join(VERIF, "known_findings.json")
    if not os.path.exists(p):
        return {"findings": [], "fixed": []}
    with open(p) as f:
        return json.load(f)


def match_known(prop: str, viol: dict[str, Any], known: dict[str, Any]) -> dict[str, Any] | None:
    for f in known.get("findings", []):
        if f.get("property") != prop:
            continue
        if f.get("inv") and f["inv"] != viol["inv"]:
            continue
        if all(s in viol["msg"] for s in f.get("contains", [])):
            return f
    return None


# ---------------------------------------------------------------------------
# worker


def worker_main(argv: list[str]) -> int:
    prop, tier, verif_seed, widx, nworkers, budget, max_runs, run_timeout = (
        argv[0], argv[1], int(argv[2]), int(argv[3]), int(argv[4]), float(argv[5]), int(argv[6]),
        int(argv[7]),
    )
    start = int(argv[8]) if len(argv) > 8 else widx  # a respawned worker resumes further on
    try:
        lim = 8 * 1024**3
        resource.setrlimit(resource.RLIMIT_AS, (lim, lim))
    except (ValueError, OSError):
        pass
    # imports (torch alone takes seconds, minutes on a loaded machine) are not part of any run:
    # they get their own generous limit, the per-run limit only covers generate + execute
    faulthandler.dump_traceback_later(1800, exit=True)
    from . import engine, shrink

    engine.warmup()
    faulthandler.cancel_dump_traceback_later()
    known = load_known()
    out = sys.stdout
    t0 = time.monotonic()
    i = start
    n = 0
    stopfile = os.environ.get("CIRSIM_STOPFILE")
    while n < max_runs and time.monotonic() - t0 < budget:
        if stopfile and os.path.exists(stopfile):
            break  # another worker has found a violation: the batch's verdict is settled
        run_seed = H(verif_seed, prop, i)
        if os.environ.get("CIRSIM_TEST_KILL_AT") == str(i):
            os._exit(9)  # self-test of the supervisor: behave like a worker killed in run i
        faulthandler.dump_traceback_later(run_timeout, exit=True)
        plan = engine.generate(prop, run_seed, tier)
        t1 = time.monotonic()
        res = engine.execute(plan)
        dt = time.monotonic() - t1
        faulthandler.cancel_dump_traceback_later()
        rec: dict[str, Any] = {"i": i, "w": widx, "seed": run_seed, "dt": round(dt, 4),
                               "res": res.to_json()}
        if n < 3 and widx == 0 and start == widx:
            rec["plan"] = plan
        if res.violation is not None:
            kf = match_known(prop, res.violation, known)
            if kf is not None:
                rec["known"] = kf.get("id", kf.get("what", "known"))
            else:
                # minimise, then write the replay file (only the first worker to find a
                # violation minimises; the others report theirs as found and stop)
                first = True
                if stopfile:
                    try:
                        os.close(os.open(stopfile, os.O_CREAT | os.O_EXCL | os.O_WRONLY))
                    except FileExistsError:
                        first = False
                faulthandler.dump_traceback_later(600, exit=True)
                inv = res.violation["inv"]
                if first:
                    small, nexec = shrink.minimise(plan, inv, max_exec=300, max_s=150.0)
                else:
                    small, nexec = plan, 0
                r2 = engine.execute(small)
                if r2.violation is None or r2.violation["inv"] != inv:
                    small, r2 = plan, res
                faulthandler.cancel_dump_traceback_later()
                path = write_replay(prop, verif_seed, i, small, r2.violation, plan, nexec)
                rec["replay"] = path
                rec["min_violation"] = r2.violation
                out.write(json.dumps(rec) + "\n")
                out.flush()
                return 0
        out.write(json.dumps(rec) + "\n")
        out.flush()
        i += nworkers
        n += 1
    return 0


def write_replay(prop: str, verif_seed: int, idx: int, plan: dict[str, Any],
                 viol: dict[str, Any], original: dict[str, Any], nexec: int) -> str:
    d = os.environ.get("CIRSIM_REPLAY_DIR") or os.path.join(VERIF, "replays")
    os.makedirs(d, exist_ok=True)
    body = {
        "property": prop,
        "verif_seed": verif_seed,
        "run_index": idx,
        "run_seed": original.get("run_seed"),
        "expect": {
            "inv": viol["inv"],
            "step": viol["step"],
            "msg": viol["msg"],
            "msg_digest": hashlib.sha256(viol["msg"].encode()).hexdigest()[:16],
        },
        "minimised": {"executions": nexec, "ops_before": len(original.get("ops", [])),
                      "ops_after": len(plan.get("ops", []))},
        "plan": plan,
    }
    path = os.path.join(d, f"{prop}-{verif_seed}-{idx}.json")
    with open(path, "w") as f:
        json.dump(body, f, indent=1, sort_keys=True)
    return path


# ---------------------------------------------------------------------------
# parent


class Agg:
    def __init__(self) -> None:
        self.runs = 0
        self.steps = 0
        self.stats: Counter[str] = Counter()
        self.nontrivial_keys: set[str] = set()
        self.nontrivial_runs = 0
        self.digests: set[str] = set()
        self.harness_errors: list[tuple[int, str]] = []
        self.violations: list[dict[str, Any]] = []
        self.known: Counter[str] = Counter()
        self.samples: list[Any] = []
        self.dts: list[float] = []
        self.worker_failures = 0
        self.lock = threading.Lock()

    def add(self, rec: dict[str, Any]) -> None:
        with self.lock:
            res = rec["res"]
            self.runs += 1
            self.steps += res["steps"]
            self.stats.update(res["stats"])
            self.digests.add(res["digest"])
            self.dts.append(rec.get("dt", 0.0))
            if res["nontrivial"]:
                self.nontrivial_runs += 1
                self.nontrivial_keys.add(res["shape_key"])
            if res["harness_error"]:
                self.harness_errors.append((rec["i"], res["harness_error"]))
            if "plan" in rec and len(self.samples) < 3:
                self.samples.append({"run_index": rec["i"], "run_seed": rec["seed"],
                                     "plan": rec["plan"]})
            if "known" in rec:
                self.known[rec["known"]] += 1
            elif res["violation"] is not None:
                self.violations.append(rec)


def run_check(prop: str, tier: str, verif_seed: int, *, budget: float | None = None,
              max_runs: int | None = None, workers: int | None = None,
              quiet: bool = False) -> tuple[int, Agg, float]:
    cfg = dict(TIERS[tier])
    if budget is not None:
        cfg["budget"] = budget
    if max_runs is not None:
        cfg["max_runs"] = max_runs
    nw = workers or min(16, os.cpu_count() or 4)
    per_worker = max(1, -(-int(cfg["max_runs"]) // nw))
    env = dict(os.environ)
    env["PYTHONPATH"] = VERIF + os.pathsep + env.get("PYTHONPATH", "")
    env["PYTHONHASHSEED"] = "0"
    env["OMP_NUM_THREADS"] = "1"
    env["MKL_NUM_THREADS"] = "1"
    import tempfile

    stopdir = tempfile.mkdtemp(prefix="cirsim-stop-")
    env["CIRSIM_STOPFILE"] = os.path.join(stopdir, "violation-found")
    agg = Agg()
    t0 = time.monotonic()
    procs: list[subprocess.Popen[str]] = []
    threads = []
    stderr_tail: list[str] = []

    def reader(p: subprocess.Popen[str]) -> None:
        assert p.stdout is not None
        for line in p.stdout:
            line = line.strip()
            if not line.startswith("{"):
                continue
            try:
                rec = json.loads(line)
            except json.JSONDecodeError:
                continue
            agg.add(rec)

    def err_reader(p: subprocess.Popen[str]) -> None:
        assert p.stderr is not None
        for line in p.stderr:
            if len(stderr_tail) < 400:
                stderr_tail.append(line.rstrip())

    hard = cfg["budget"] + 900.0  # minimisation and a last long run may overrun the soft budget
    fails = [0] * nw
    last_i: dict[int, int] = {}
    lock = threading.Lock()
    _orig_add = agg.add

    def add(rec: dict[str, Any]) -> None:
        if "w" in rec:
            with lock:
                last_i[rec["w"]] = max(last_i.get(rec["w"], -1), rec["i"])
        _orig_add(rec)

    agg.add = add  # type: ignore[method-assign]

    def supervise(w: int) -> None:
        """Run worker slot w; if the process dies (per-run timeout, address-space limit) while
        there is budget left, start a replacement that resumes *after* the run that killed it."""
        start = w
        while True:
            left_soft = cfg["budget"] - (time.monotonic() - t0)
            p = subprocess.Popen(
                [PY, "-u", "-m", "cirsim.cli", "_worker", prop, tier, str(verif_seed), str(w),
                 str(nw), str(max(1.0, left_soft)), str(per_worker), str(cfg["run_timeout"]),
                 str(start)],
                stdout=subprocess.PIPE, stderr=subprocess.PIPE, text=True, env=env, cwd=VERIF,
            )
            procs.append(p)
            te = threading.Thread(target=err_reader, args=(p,), daemon=True)
            te.start()
            reader(p)  # returns when the worker closes its stdout
            left = hard - (time.monotonic() - t0)
            try:
                p.wait(timeout=max(1.0, left))
            except subprocess.TimeoutExpired:
                p.kill()
                p.wait()
                fails[w] += 1
                return
            if p.returncode == 0:
                return
            fails[w] += 1
            left_soft = cfg["budget"] - (time.monotonic() - t0)
            if fails[w] >= 3 or left_soft < 15.0 or os.path.exists(env["CIRSIM_STOPFILE"]):
                return
            with lock:
                li = last_i.get(w, start - nw)
            start = max(li, start - nw) + 2 * nw  # skip the run that did not return

    for w in range(nw):
        t = threading.Thread(target=supervise, args=(w,), daemon=True)
        t.start()
        threads.append(t)
    for t in threads:
        t.join(timeout=max(1.0, hard + 30.0 - (time.monotonic() - t0)))
    for p in list(procs):
        if p.poll() is None:
            p.kill()
    worker_fail = sum(fails)
    for t in threads:
        t.join(timeout=5)
    import shutil

    shutil.rmtree(stopdir, ignore_errors=True)
    wall = time.monotonic() - t0
    # A run that ended in a harness exception, or a worker that was killed (per-run timeout,
    # address-space limit), gives *no verdict* for those runs; they are counted in the evidence
    # and printed.  The check as a whole has no verdict (exit 2) when that is more than a
    # sliver of the batch - a wall-clock kill of the batch never yields 0.
    agg.worker_failures = worker_fail
    rc = 0
    if agg.violations:
        rc = 1
    elif (agg.runs == 0 or worker_fail > max(1, nw // 8)
          or len(agg.harness_errors) > max(2, agg.runs // 500)):
        rc = 2
    if rc == 0 and agg.runs >= 100 and agg.nontrivial_runs * 50 < agg.runs:
        # "held on everything explored" would be empty words: (almost) no run reached the
        # situation the property is about (e.g. every circuit was excluded at birth)
        rc = 2
        if not quiet:
            print(f"HARNESS-ERROR: only {agg.nontrivial_runs} of {agg.runs} runs were non-trivial "
                  f"(see the per-property rule): no verdict", file=sys.stderr)
    if rc == 0 and (worker_fail or agg.harness_errors) and not quiet:
        print(f"NO-VERDICT-RUNS: harness_errors={len(agg.harness_errors)} "
              f"worker_failures={worker_fail} (of {agg.runs} runs, {nw} workers)")
        for i, e in agg.harness_errors[:3]:
            print(f"  run={i}: {e.splitlines()[0][:200]}")
        if worker_fail and os.environ.get("CIRSIM_DEBUG"):
            print("\n".join(stderr_tail[-80:]), file=sys.stderr)
    if rc == 2 and not quiet:
        for i, e in agg.harness_errors[:5]:
            print(f"HARNESS-ERROR run={i}: {e}", file=sys.stderr)
        if worker_fail:
            print(f"HARNESS-ERROR: {worker_fail} worker(s) died or timed out", file=sys.stderr)
            print("\n".join(stderr_tail[-60:]), file=sys.stderr)
    return rc, agg, wall
