"""Command line:  check <ID> [--tier quick|thorough] [--replay FILE] [--budget S] [--runs N]"""

from __future__ import annotations

import argparse
import hashlib
import json
import os
import sys
import time
from typing import Any

VERIF = os.path.dirname(os.path.dirname(os.path.abspath(__file__)))

RULES = {
    "C10": "plan = seeded pipeline history (1-2 bases on one region graph, up to 6 operator-derived "
           "circuits, updates / resets / loads / late derivations / injected compile faults); "
           "non-trivial: >=1 derived circuit tracked, >=1 mutation after its compilation and >=1 "
           "freshness (I2) comparison afterwards; distinct: by (flags, semiring, operation-kind "
           "sequence incl. operator and template of each circuit)",
    "C12": "plan = template-built normalised circuit + seeded history of optimiser steps, "
           "perturbations, resets, loads; non-trivial: >=1 update followed by a mass check on a "
           "circuit with a sum layer of >=2 inputs; distinct: by (flags, semiring, template, "
           "operation-kind sequence)",
    "C15": "plan = normalised monotonic circuit + seeded sequence of sample / perturb / recompile "
           "operations; non-trivial: a sample of N>=1000 rows checked against exact probabilities "
           "on a circuit with non-uniform sum weights; distinct: by (flags, recipe, op sequence)",
    "C17": "plan = hand-assembled circuit whose fold groups mix initialisers + seeded history of "
           "resets / perturbations / optimiser steps / loads; non-trivial: >=2 resets on a circuit "
           "with >=1 fold group of >=2 differently initialised parameters; distinct: by (flags, "
           "initialiser multiset, operation-kind sequence)",
    "C18": "plan = seeded call history over 2-3 pipeline contexts (nested with-blocks, exceptional "
           "exits, compile / operator / lookup calls, refusals, injected compile faults); "
           "non-trivial: >=1 nested block, >=1 exceptional exit or injected fault, >=1 compile after "
           "it; distinct: by the sequence of event kinds",
    "C19": "plan = pipeline history with a durable byte store and restarts (save / mutate / restart "
           "/ load into a freshly compiled instance); non-trivial: >=1 save after a mutation, >=1 "
           "restart, >=1 load into a fresh instance, >=1 memo comparison afterwards; distinct: by "
           "(flags, semiring, operation-kind sequence)",
}

COMPONENTS = {
    "real": ["all of cirkit under /repo (symbolic layer, operators, compiler, folding, optimisation, "
             "torch layers, queries, templates)", "PyTorch (autograd, optimisers, state_dict / "
             "load_state_dict, torch.save / torch.load, distributions)"],
    "stub": ["durable storage: in-memory byte store owned by the simulator",
             "process restart: drop all contexts / compiled objects, rebuild, re-seed",
             "set-iteration order: __hash__ of AbstractTorchModule / GraphOptMatch drawn from "
             "plan.hash_seed", "RNG: torch.manual_seed(op.seed) before every consuming operation",
             "faults: SimFault raised at a seeded crossing of wrapped public compiler methods"],
}


def _evidence(prop: str, tier: str, seed: int, agg: Any, wall: float, rc: int) -> dict[str, Any]:
    stats = dict(sorted(agg.stats.items()))
    faults = {k: v for k, v in stats.items() if k.startswith("fault:")}
    ops = {k[3:]: v for k, v in stats.items() if k.startswith("op:")}
    cov: dict[str, Any] = {
        "evaluations": agg.runs,
        "distinct_nontrivial": len(agg.nontrivial_keys),
        "nontrivial_runs": agg.nontrivial_runs,
        "rule": RULES[prop],
        "samples": agg.samples if agg.samples else [],
        "distinct_event_log_digests": len(agg.digests),
        "simulated_steps_total": agg.steps,
        "simulated_time_note": "there is no simulated clock: operations (steps) are the time axis",
        "runs_per_hour": round(agg.runs / wall * 3600.0, 1) if wall > 0 else 0.0,
        "seeds_per_hour": round(agg.runs / wall * 3600.0, 1) if wall > 0 else 0.0,
        "operation_histogram": ops,
        "faults_fired": faults,
        "disruptive_events": {
            "process_restarts (crash: only the byte store survives)": ops.get("restart", 0),
            "restarts_by_mode": {k: v for k, v in stats.items() if k.startswith("restart:")},
            "loads_of_saved_state": stats.get("load:same", 0) + stats.get("load:fresh", 0),
            "loads_into_fresh_incarnation": stats.get("load:fresh", 0),
            "re-initialisations": ops.get("reset", 0) + stats.get("resets-in-bursts", 0),
            "in-place_perturbations": ops.get("perturb", 0),
            "optimiser_steps_ops": ops.get("optim", 0),
            "diverged_updates_rolled_back": stats.get("diverged:optim", 0) + stats.get("diverged:perturb", 0),
            "exceptional_block_exits": stats.get("exit:exc", 0) + stats.get("fault:fired:nested-block-exit", 0),
            "documented_refusals": sum(v for k, v in stats.items() if k.startswith("refusal:") or k.startswith("excluded:refusal")),
        },
        "counters": stats,
        "known_findings_hit": dict(agg.known),
        "harness_errors": len(agg.harness_errors),
        "worker_failures": getattr(agg, "worker_failures", 0),
        "runs_skipped_for_resources": stats.get("skipped:resource", 0),
        "components": COMPONENTS,
        "exhaustive": False,
    }
    return {
        "property_id": prop,
        "tier": tier,
        "seed": seed,
        "level": "exploration",
        "coverage": cov,
        "assumptions": [
            "sampling, not enumeration: a clean batch is evidence, not proof",
            "float64, CPU, single torch thread",
            "PyTorch itself (autograd, state_dict, torch.save/load) is trusted",
        ],
        "wall_s": round(wall, 2),
        "violations": len(agg.violations),
    }


def cmd_check(args: argparse.Namespace) -> int:
    from . import runner

    prop = args.prop
    tier = args.tier or os.environ.get("VERIF_TIER") or "quick"
    seed = int(os.environ.get("VERIF_SEED", "0")) if args.seed is None else args.seed
    print(f"cirsim: property={prop} tier={tier} VERIF_SEED={seed}", flush=True)
    rc, agg, wall = runner.run_check(prop, tier, seed, budget=args.budget, max_runs=args.runs,
                                     workers=args.workers)
    ev = _evidence(prop, tier, seed, agg, wall, rc)
    # CIRSIM_EVIDENCE_DIR / CIRSIM_REPLAY_DIR: only the sensitivity self-test (mutants/) sets
    # them, so that runs against a mutated scratch copy do not overwrite the real evidence
    evdir = os.environ.get("CIRSIM_EVIDENCE_DIR") or os.path.join(VERIF, "evidence")
    os.makedirs(evdir, exist_ok=True)
    with open(os.path.join(evdir, f"{prop}.json"), "w") as f:
        json.dump(ev, f, indent=1, sort_keys=True)
    known = runner.load_known()
    for fnd in known.get("findings", []):
        if fnd.get("property") == prop:
            print(f"KNOWN-FINDING: property={prop} {fnd.get('what', '')} "
                  f"(hit {agg.known.get(fnd.get('id', fnd.get('what', 'known')), 0)} times in this run)")
    print(f"runs={agg.runs} nontrivial={agg.nontrivial_runs} distinct_nontrivial="
          f"{len(agg.nontrivial_keys)} steps={agg.steps} wall={wall:.1f}s "
          f"faults_fired={agg.stats.get('fault:fired', 0)} violations={len(agg.violations)}")
    if rc == 1:
        vs = sorted(agg.violations, key=lambda r: r["i"])
        shown = set()
        for rec in vs:
            path = rec.get("replay")
            v = rec.get("min_violation") or rec["res"]["violation"]
            key = (v["inv"], path)
            if key in shown:
                continue
            shown.add(key)
            # the replay must reproduce in a fresh interpreter before it is reported
            ok = _verify_replay(path) if path else False
            print(f"  invariant {v['inv']} at step {v['step']}: {v['msg']}"
                  f" [run index {rec['i']}, seed {rec['seed']}, replay reproduces: {ok}]")
            print(f"VIOLATION property={prop} replay={path}")
        return 1
    if rc == 2:
        print("HARNESS-FAILURE (no verdict)", file=sys.stderr)
        return 2
    return 0


def _verify_replay(path: str) -> bool:
    import subprocess

    env = dict(os.environ)
    env["PYTHONPATH"] = VERIF + (os.pathsep + env["PYTHONPATH"] if env.get("PYTHONPATH") else "")
    env["PYTHONHASHSEED"] = "1"
    try:
        p = subprocess.run([sys.executable, "-m", "cirsim.cli", "_replay_quiet", path],
                           capture_output=True, text=True, env=env, cwd=VERIF, timeout=600)
    except subprocess.TimeoutExpired:
        return False
    return p.returncode == 1


def cmd_replay(path: str, quiet: bool = False) -> int:
    from . import engine

    with open(path) as f:
        body = json.load(f)
    plan = body["plan"]
    res = engine.execute(plan, keep_events=True)
    if not quiet:
        for e in res.events:
            print("  ", e)
        print(f"digest={res.digest}")
    exp = body.get("expect", {})
    if res.harness_error:
        print("HARNESS-ERROR:", res.harness_error, file=sys.stderr)
        return 2
    if res.violation is None:
        print("replay: no violation (NOT REPRODUCED)")
        return 0
    same = res.violation["inv"] == exp.get("inv") and res.violation["step"] == exp.get("step")
    md = hashlib.sha256(res.violation["msg"].encode()).hexdigest()[:16]
    print(f"replay: invariant {res.violation['inv']} at step {res.violation['step']}: "
          f"{res.violation['msg']}")
    print(f"replay: same invariant and step as recorded: {same}; same message: {md == exp.get('msg_digest')}")
    print(f"VIOLATION property={body['property']} replay={path}")
    return 1


def main(argv: list[str] | None = None) -> int:
    argv = list(sys.argv[1:] if argv is None else argv)
    if argv and argv[0] == "_worker":
        from . import runner

        return runner.worker_main(argv[1:])
    if argv and argv[0] == "_replay_quiet":
        return cmd_replay(argv[1], quiet=True)
    if argv and argv[0] == "selftest":
        from . import selftest

        return selftest.main(argv[1:])
    ap = argparse.ArgumentParser(prog="check")
    ap.add_argument("prop")
    ap.add_argument("--tier", choices=["quick", "thorough"])
    ap.add_argument("--replay")
    ap.add_argument("--budget", type=float)
    ap.add_argument("--runs", type=int)
    ap.add_argument("--workers", type=int)
    ap.add_argument("--seed", type=int)
    args = ap.parse_args(argv)
    if args.replay:
        return cmd_replay(args.replay)
    return cmd_check(args)


if __name__ == "__main__":
    sys.exit(main())
