"""C19 - saved parameters reproduce the circuit after reload (DESIGN.md section 5.6).

Most of the oracle lives in world W-A itself (the byte store, ``restart``, the version memo R3
= invariant D1, the direct comparison D2 at every load, strict key match S1, recompilation
after a restart S3).  This hook adds what is specific to the *dictionary*:

* E1 exactly once: in the ``state_dict(keep_vars=True)`` of a circuit that owns its tensors the
  learnable tensors are exactly the circuit's ``parameters()`` that require gradients, each
  under exactly one key;
* E2 completeness for derived circuits: every learnable tensor a derived circuit reads is in
  its dictionary at least once (a derived circuit lists an operand tensor once per pointer -
  torch's semantics for shared sub-modules - so "exactly once" is not demanded there);
* K1 key stability: the key set (and the shape / dtype under every key) of a circuit is the same
  in every incarnation, whatever the hash order;
and makes sure the memo holds the outputs of every live circuit at every save."""

from __future__ import annotations

from typing import Any

from .kernel import Violation


def install(w: Any) -> None:
    layouts: dict[str, dict[str, tuple[tuple[int, ...], str]]] = {}
    mutated_since_birth: set[str] = set()

    def layout_of(c: Any) -> dict[str, tuple[tuple[int, ...], str]]:
        return {k: (tuple(v.shape), str(v.dtype)) for k, v in c.cc.state_dict().items()}

    def check_layout(c: Any, where: str) -> None:
        lay = layout_of(c)
        prev = layouts.get(c.name)
        if prev is None:
            layouts[c.name] = lay
            return
        w.tr.count("cmp:K1")
        if prev != lay:
            missing = sorted(set(prev) - set(lay))[:3]
            extra = sorted(set(lay) - set(prev))[:3]
            changed = sorted(k for k in set(lay) & set(prev) if lay[k] != prev[k])[:3]
            raise Violation(
                "K1",
                f"{c.name} ({w._describe(c)}): the state dictionary layout differs between two "
                f"compilations of the same symbolic circuit {where}: missing {missing} new {extra} "
                f"reshaped {changed}",
            )

    def check_dict(c: Any) -> None:
        sd = c.cc.state_dict(keep_vars=True)
        by_id: dict[int, list[str]] = {}
        for k, v in sd.items():
            by_id.setdefault(id(v), []).append(k)
        learn = {id(p): p for p in c.cc.parameters() if p.requires_grad}
        if c.kind == "base":
            w.tr.count("cmp:E1")
            for pid, p in learn.items():
                keys = by_id.get(pid, [])
                if len(keys) != 1:
                    raise Violation(
                        "E1",
                        f"{c.name}: a learnable tensor of shape {tuple(p.shape)} appears under "
                        f"{len(keys)} keys of the state dictionary {keys[:3]} (expected exactly one)",
                    )
            for k, v in sd.items():
                if getattr(v, "requires_grad", False) and id(v) not in learn:
                    raise Violation(
                        "E1", f"{c.name}: key {k} holds a tensor requiring gradients that is not a "
                              f"parameter of the circuit")
        else:
            w.tr.count("cmp:E2")
            for pid, p in learn.items():
                if pid not in by_id:
                    raise Violation(
                        "E2",
                        f"derived {c.name} ({w._describe(c)}) reads a learnable tensor of shape "
                        f"{tuple(p.shape)} that is missing from its state dictionary",
                    )

    def hook(world: Any, op: dict[str, Any], info: dict[str, Any]) -> None:
        kind = op["op"]
        if info.get("final"):
            return
        for n in info.get("mutated") or []:
            mutated_since_birth.add(n)
        if "born" in info:
            check_layout(info["born"], f"(step {world.tr.step})")
        if kind == "restart":
            for c in world.alive():
                check_layout(c, f"after the restart at step {world.tr.step}")
        if "saved" in info:
            c = info["saved"]
            check_dict(c)
            if any(b in mutated_since_birth for b in c.bases):
                world.tr.count("c19:saved-after-mutation")
            # the memo must know what every live circuit computes for the versions being saved
            world.check_memo(world.alive())

    hook.always = True  # type: ignore[attr-defined]  # bookkeeping only: never evaluates before a save
    w.hooks.append(hook)
