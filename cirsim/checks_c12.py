"""C12 - circuits built with normalised parameterisations are normalised (DESIGN.md 5.2).

A conservation law over training histories: after every update (optimiser steps, in-place
perturbations, resets, loads, restarts) of the *unconstrained* parameters the total mass of the
circuit is one, all values are non-negative, and in log space every in-support input evaluates
to a finite number.  The mass comes from reference R2:

  route A  brute force: the sum of the compiled circuit over all joint states (<= 4096),
           independent of ``integrate``;
  route B  the compiled ``integrate(c)`` circuit, derived once at birth in the same context;
  route C  ``IntegrateQuery`` over the full scope (e.g. binomial inputs: no integrate rule).

Parameters are kept inside a float64-safe band: while any learnable entry is non-finite or
larger than BAND in magnitude the checks are suspended (softmax / sigmoid saturate to exact
0 / 1 beyond that, which is floating point, not a defect)."""

from __future__ import annotations

import itertools
import math
from typing import Any

import numpy as np
import torch

from . import oracles
from .kernel import HarnessError, Violation

BAND = 30.0
TOL = 1e-7
TOL32 = 5e-4  # single precision: sums of up to 4096 terms, each good to ~1e-7 relative
MAX_BRUTE = 4096


def _states_of(c: Any) -> list[int] | None:
    r = c.recipe
    if r["kind"] == "template":
        return r.get("states")
    if r["kind"] in ("rg", "dag"):
        kind, k = c.domain
        if kind != "discrete":
            return None
        return [k] * c.num_vars
    return None


def install(w: Any) -> None:
    grids: dict[str, np.ndarray] = {}

    def in_band(c: Any) -> bool:
        for p in c.cc.parameters():
            if not p.requires_grad:
                continue
            q = torch.view_as_real(p.detach()) if p.is_complex() else p.detach()
            if not bool(torch.isfinite(q).all()) or float(q.abs().max()) > BAND:
                return False
        return True

    def has_real_sum(c: Any) -> bool:
        from cirkit.symbolic.layers import SumLayer

        return any(isinstance(l, SumLayer) and l.num_input_units * l.arity >= 2 for l in c.sc.layers)

    def log_mass(c: Any) -> tuple[str, torch.Tensor] | None:
        """(route, log Z per output) or None when no route applies."""
        sts = _states_of(c)
        # (python integers: a product over 130 variables overflows int64)
        if sts is not None and math.prod(int(k) for k in sts) <= MAX_BRUTE and len(sts) == len(c.cc.scope):
            X = grids.get(c.name)
            if X is None:
                X = np.array(list(itertools.product(*[range(k) for k in sts])), dtype=np.int64)
                grids[c.name] = X
            y = oracles.evaluate(c.cc, X)  # (S, O, K)
            if w.semiring == "sum-product":
                if bool((y < 0).any()):
                    raise Violation(
                        "M2", f"{c.name} ({_name(c)}) takes the negative value {float(y.min()):.3e} "
                              f"on some state")
                return "brute", torch.log(y.sum(dim=0))
            return "brute", torch.logsumexp(y, dim=0)
        for d in w.alive("derived"):
            sp = d.spec or {}
            if sp.get("opr") == "integrate" and sp.get("scope") is None and d.srcs == (c.name,):
                y = oracles.evaluate(d.cc, None)  # (O, K)
                return "integrate", (torch.log(y) if w.semiring == "sum-product" else y)
        try:
            from cirkit.backend.torch.queries import IntegrateQuery
            from cirkit.utils.scope import Scope

            X = w.probes_for(c)[0]
            with torch.no_grad():
                y = IntegrateQuery(c.cc)(torch.from_numpy(X[:1]), integrate_vars=Scope(c.cc.scope))
            y = y[0]
            return "query", (torch.log(y) if w.semiring == "sum-product" else y)
        except HarnessError:
            raise
        except Exception as e:
            w.tr.count(f"c12:no-route:{type(e).__name__}")
            return None

    def _name(c: Any) -> str:
        r = c.recipe
        if r["kind"] == "template":
            a = r["args"]
            return f"{r['template']}:{a.get('rg', '')}:{a.get('input', '')}:{a.get('sp', '')}"
        if r["kind"] == "dag":
            return f"dag:{r['input']['type']}:{len(r['nodes'])} nodes"
        return f"rg:{r['rg']['algo']}:{r['input']['type']}:{r['sp']}:{r.get('nary')}"

    def staged_integrals(c: Any) -> list[Any]:
        """Derived circuits with empty scope obtained from ``c`` by integration in stages
        (integrate some variables, then the rest): each of them is the partition function too."""
        out = []
        for d in w.alive("derived"):
            if len(d.cc.scope) != 0 or d.bases != (c.name,):
                continue
            cur, ok, depth = d, True, 0
            while cur.kind == "derived":
                sp = cur.spec or {}
                if sp.get("opr") != "integrate" or sp.get("pre") is not None or len(cur.srcs) != 1:
                    ok = False
                    break
                cur = w.circs[cur.srcs[0]]
                depth += 1
            if ok and cur is c and depth >= 2:
                out.append(d)
        return out

    def check(c: Any, where: str, after_update: bool) -> None:
        if not in_band(c):
            w.tr.count("c12:out-of-band")
            return
        for d in staged_integrals(c):
            try:
                y = oracles.evaluate(d.cc, None)
            except Exception as e:
                raise Violation("M4", f"{d.name}: staged integral of {c.name} ({_name(c)}) cannot be evaluated {where}: {type(e).__name__}")
            lz = torch.log(y) if w.semiring == "sum-product" else y
            lz = lz.real if lz.is_complex() else lz
            w.tr.count("c12:mass:staged-integrate")
            tol_ = TOL32 if w.plan["config"].get("dtype") == "float32" else TOL
            if not bool(torch.isfinite(lz).all()) or float(lz.abs().max()) > tol_:
                raise Violation(
                    "M1",
                    f"{c.name} ({_name(c)}; fold={w.fold} optimize={w.optimize} {w.semiring}) has "
                    f"log-partition {lz.reshape(-1).tolist()[:4]} when integrated in stages "
                    f"({d.name}), expected 0 {where}",
                )
        try:
            res = log_mass(c)
        except Violation:
            raise
        except HarnessError:
            raise
        except Exception as e:
            raise Violation(
                "M4", f"{c.name} ({_name(c)}) cannot be evaluated {where}: {type(e).__name__}: {str(e)[:140]}")
        if res is None:
            return
        route, lz = res
        w.tr.count(f"c12:mass:{route}")
        lz = lz.real if lz.is_complex() else lz
        tol = TOL32 if w.plan["config"].get("dtype") == "float32" else TOL
        if not bool(torch.isfinite(lz).all()) or float(lz.abs().max()) > tol:
            raise Violation(
                "M1",
                f"{c.name} ({_name(c)}; fold={w.fold} optimize={w.optimize} {w.semiring}) has "
                f"log-partition {lz.reshape(-1).tolist()[:4]} (route {route}), expected 0 {where}",
            )
        # probes are in the support of every variable: finite in log space, >= 0 in linear space
        for X in w.probes_for(c):
            y = oracles.evaluate(c.cc, X)
            y = y.real if y.is_complex() else y
            w.tr.count("c12:support-checks")
            if w.semiring == "sum-product":
                if bool((y < 0).any()) or not bool(torch.isfinite(y).all()):
                    raise Violation("M2", f"{c.name} ({_name(c)}) has a negative or non-finite value on an in-support input {where}")
            elif not bool(torch.isfinite(y).all()):
                raise Violation(
                    "M3", f"{c.name} ({_name(c)}) evaluates an in-support input to a non-finite "
                          f"log-value {where}")
        if after_update and has_real_sum(c):
            w.tr.count("c12:mass-after-update")

    updated: set[str] = set()

    def hook(world: Any, op: dict[str, Any], info: dict[str, Any]) -> None:
        if info.get("final"):
            for c in world.alive("base"):
                check(c, "at the end of the run", c.name in updated)
            return
        for n in info.get("mutated") or []:
            updated.add(n)
        if info.get("restart"):
            updated.clear()
        touched = set(info.get("mutated") or [])
        if "born" in info:
            touched.add(info["born"].name)
            # a late integrate(c) gives route B for its operand
            touched.update(info["born"].bases)
        if info.get("restart"):
            touched.update(c.name for c in world.alive("base"))
        for n in sorted(touched):
            c = world.get(n)
            if c is not None and c.kind == "base":
                check(c, f"after {op['op']} at step {world.tr.step}", c.name in updated)

    w.hooks.append(hook)
