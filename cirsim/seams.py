"""Seams the simulator owns (DESIGN.md section 2.2).

* torch set-up (single thread, float64, deterministic algorithms);
* the *hash seam*: iteration order of sets of id-hashed objects (folded input modules,
  optimisation matches) becomes a function of ``plan.hash_seed``;
* the *fault seam*: public methods of the compiler / circuit classes wrapped with a crossing
  counter, so that a plan can say "raise SimFault at crossing k of this operation".

Everything is installed by monkeypatching public classes at run time; nothing in /repo is
modified.  ``uninstall`` restores the originals.
"""

from __future__ import annotations

import contextlib
import importlib
import random
from typing import Any, Callable, Iterator

import torch

from .kernel import HarnessError, SimFault

_TORCH_READY = False


def setup_torch() -> None:
    global _TORCH_READY
    if _TORCH_READY:
        return
    torch.set_num_threads(1)
    try:
        torch.set_num_interop_threads(1)
    except RuntimeError:
        pass
    torch.set_default_dtype(torch.float64)
    torch.use_deterministic_algorithms(True, warn_only=True)
    _TORCH_READY = True


# ---------------------------------------------------------------------------
# hash seam


class HashSeam:
    """Owns ``__hash__`` of AbstractTorchModule and GraphOptMatch instances.

    Each object gets, the first time it is hashed, a value drawn from
    ``random.Random(hash_seed)`` and keeps it.  Any assignment of distinct hashes is an
    outcome the real allocator can produce (default hashes are addresses), so this only
    reaches behaviours real runs can show - but makes them a function of the seed."""

    def __init__(self) -> None:
        self._rng = random.Random(0)
        self._installed = False
        self._saved: list[tuple[type, Any]] = []
        self.draws = 0

    def _classes(self) -> list[type]:
        mods = importlib.import_module("cirkit.backend.torch.graph.modules")
        opt = importlib.import_module("cirkit.backend.torch.graph.optimize")
        out = []
        for m, n in ((mods, "AbstractTorchModule"), (opt, "GraphOptMatch")):
            c = getattr(m, n, None)
            if c is None:
                raise HarnessError(f"hash seam: class {n} not found")
            out.append(c)
        return out

    def install(self, seed: int) -> None:
        self._rng = random.Random(seed)
        self.draws = 0
        if self._installed:
            return
        seam = self

        def _h(obj: Any) -> int:
            d = obj.__dict__
            v = d.get("_cirsim_hash")
            if v is None:
                v = seam._rng.getrandbits(61)
                d["_cirsim_hash"] = v
                seam.draws += 1
            return v

        for c in self._classes():
            self._saved.append((c, c.__dict__.get("__hash__", None)))
            c.__hash__ = _h  # type: ignore[assignment]
        self._installed = True

    def reseed(self, seed: int) -> None:
        self._rng = random.Random(seed)

    def uninstall(self) -> None:
        for c, h in self._saved:
            if h is None:
                try:
                    delattr(c, "__hash__")
                except AttributeError:
                    pass
            else:
                c.__hash__ = h  # type: ignore[assignment]
        self._saved.clear()
        self._installed = False


HASH_SEAM = HashSeam()


# ---------------------------------------------------------------------------
# fault seam

# (module, class, method): all public API of the classes named in the properties' anchors.
FAULT_SITES: list[tuple[str, str, str]] = [
    ("cirkit.backend.torch.compiler", "TorchCompiler", "compile_layer"),
    ("cirkit.backend.torch.compiler", "TorchCompiler", "compile_parameter"),
    ("cirkit.backend.torch.compiler", "TorchCompiler", "compile_initializer"),
    ("cirkit.backend.compiler", "AbstractCompiler", "register_compiled_circuit"),
    ("cirkit.backend.torch.compiler", "TorchCompilerState", "register_compiled_parameter"),
    ("cirkit.backend.torch.compiler", "TorchCompilerState", "finish_compilation"),
    ("cirkit.backend.torch.circuits", "TorchCircuit", "reset_parameters"),
    ("cirkit.backend.torch.circuits", "TorchCircuit", "__init__"),
    ("cirkit.backend.torch.parameters.nodes", "TorchTensorParameter", "reset_parameters"),
    ("cirkit.backend.torch.parameters.parameter", "TorchParameter", "__init__"),
]


class FaultSeam:
    def __init__(self) -> None:
        self._installed = False
        self._saved: list[tuple[type, str, Any]] = []
        self.missing: list[str] = []
        self.armed = False
        self.count = 0
        self.fire_at = -1  # crossing index at which to raise (0-based); -1: only count
        self.when = "before"
        self.fired: str | None = None
        self.observer: Callable[[str, tuple, dict], None] | None = None  # called after a completed call

    def install(self) -> None:
        if self._installed:
            return
        seam = self
        for modname, clsname, meth in FAULT_SITES:
            try:
                mod = importlib.import_module(modname)
                cls = getattr(mod, clsname)
                orig = cls.__dict__[meth]
            except (ImportError, AttributeError, KeyError):
                self.missing.append(f"{clsname}.{meth}")
                continue
            site = f"{clsname}.{meth}"

            def make(orig: Any, site: str) -> Any:
                def wrapper(*a: Any, **k: Any) -> Any:
                    if not seam.armed:
                        r = orig(*a, **k)
                        if seam.observer is not None:
                            seam.observer(site, a, k)
                        return r
                    idx = seam.count
                    seam.count += 1
                    if idx == seam.fire_at and seam.when == "before":
                        seam.fired = site
                        raise SimFault(f"injected before {site} (crossing {idx})")
                    r = orig(*a, **k)
                    if seam.observer is not None:
                        seam.observer(site, a, k)
                    if idx == seam.fire_at and seam.when == "after":
                        seam.fired = site
                        raise SimFault(f"injected after {site} (crossing {idx})")
                    return r

                wrapper.__name__ = getattr(orig, "__name__", meth)
                wrapper.__doc__ = getattr(orig, "__doc__", None)
                wrapper.__wrapped__ = orig  # type: ignore[attr-defined]
                return wrapper

            self._saved.append((cls, meth, orig))
            setattr(cls, meth, make(orig, site))
        self._installed = True

    def uninstall(self) -> None:
        for cls, meth, orig in self._saved:
            setattr(cls, meth, orig)
        self._saved.clear()
        self._installed = False
        self.missing.clear()
        self.observer = None

    @contextlib.contextmanager
    def arm(self, fire_at: int = -1, when: str = "before") -> Iterator["FaultSeam"]:
        """Within the block, count crossings; raise SimFault at crossing ``fire_at``."""
        if not self._installed:
            raise HarnessError("fault seam not installed")
        prev = (self.armed, self.count, self.fire_at, self.when, self.fired)
        self.armed = True
        self.count = 0
        self.fire_at = fire_at
        self.when = when
        self.fired = None
        try:
            yield self
        finally:
            self.last_count = self.count
            self.last_fired = self.fired
            self.armed, self.count, self.fire_at, self.when, self.fired = prev

    last_count = 0
    last_fired: str | None = None


FAULT_SEAM = FaultSeam()


def seed_rng(seed: int) -> None:
    """Own the torch global generator before an RNG-consuming operation."""
    torch.manual_seed(seed & 0x7FFFFFFFFFFFFFFF)


@contextlib.contextmanager
def simulation(hash_seed: int) -> Iterator[None]:
    """Install all seams for the duration of one run."""
    setup_torch()
    HASH_SEAM.install(hash_seed)
    FAULT_SEAM.install()
    try:
        yield
    finally:
        FAULT_SEAM.uninstall()
        HASH_SEAM.uninstall()
