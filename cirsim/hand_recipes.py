"""Hand-assembled circuits for C17 (DESIGN.md section 5.4): several same-shaped layers meet in
one fold group while carrying *different* symbolic initialisers.

Structure (all through public constructors of ``cirkit.symbolic``):

    for every variable v:   input layer I_v (K units)  ->  optional dense sum S_v (K -> K)
    product over all v (Hadamard)  ->  top sum (K -> nc)

The input layers share class, shape, learnable flag and dtype, so folding puts their tensors
into one group; the per-variable sums likewise.  Every tensor has its own initialiser spec.
One variable may be wrapped in a hand-built ``EvidenceLayer`` whose wrapped layer *owns* its
tensor (the functional operator only ever wraps references)."""

from __future__ import annotations

from typing import Any

import numpy as np

from .kernel import HarnessError

Spec = dict[str, Any]


_SHARED: dict[int, Any] = {}
# id(symbolic tensor parameter) -> (initialiser spec as *declared* in the recipe, the node): the
# C17 oracle takes the declaration from here, never from the (mutable) initialiser object
SPECS: dict[int, tuple[Spec, Any]] = {}


def build_initializer(init: Spec, shape: tuple[int, ...]) -> Any:
    """``init["share"]``: initialisers with the same share id are one and the same *object* within
    a circuit (what ``parameterization_to_factory`` does for all parameters it builds)."""
    sid = init.get("share")
    if sid is not None and sid in _SHARED:
        return _SHARED[sid]
    obj = _build_initializer(init, shape)
    if sid is not None:
        _SHARED[sid] = obj
    return obj


def _build_initializer(init: Spec, shape: tuple[int, ...]) -> Any:
    from cirkit.symbolic.initializers import (
        ConstantTensorInitializer,
        DirichletInitializer,
        NormalInitializer,
        UniformInitializer,
    )

    t = init["type"]
    if t == "const":
        return ConstantTensorInitializer(const_value(init, shape))
    if t == "uniform":
        return UniformInitializer(init["a"], init["b"])
    if t == "normal":
        return NormalInitializer(init["mean"], init["std"])
    if t == "dirichlet":
        alpha = init["alpha"]
        if isinstance(alpha, list):
            alpha = [float(a) for a in alpha]
        else:
            alpha = float(alpha)
        return DirichletInitializer(alpha, axis=init["axis"])
    raise HarnessError(f"unknown initialiser {t}")


def _layout(a: Any, seed: int) -> Any:
    """Same values, another memory layout, chosen by the array seed (no PRNG draw): C order,
    Fortran order, or the last two axes swapped in memory.  What a user gets from ``table.T`` or
    ``np.asfortranarray``; the compiled slice must not depend on it (seeded change C17e-m1)."""
    if not isinstance(a, np.ndarray) or a.ndim < 2:
        return a
    m = seed % 3
    if m == 1:
        return np.asfortranarray(a)
    if m == 2:
        return np.swapaxes(np.ascontiguousarray(np.swapaxes(a, -1, -2)), -1, -2)
    return a


def const_value(init: Spec, shape: tuple[int, ...]) -> Any:
    """The python / numpy value of a constant initialiser spec."""
    v = init["value"]
    if isinstance(v, dict) and "array" in v:
        return _layout(_const_value(init, shape), int(v["array"]))
    return _const_value(init, shape)


def _const_value(init: Spec, shape: tuple[int, ...]) -> Any:
    v = init["value"]
    if isinstance(v, dict):
        if "array" in v:
            # deterministic array: shape 'full' (the parameter shape) or a broadcastable suffix
            rs = np.random.RandomState(v["array"])
            shp = shape if v.get("bshape") is None else tuple(v["bshape"])
            kind = v.get("dtype", "float")
            if kind == "int":
                return rs.randint(1, 5, size=shp).astype(np.int64)
            if kind == "complex":
                return (rs.uniform(0.2, 1.5, size=shp) + 1j * rs.uniform(-1.0, 1.0, size=shp)).astype(
                    np.complex128
                )
            if kind == "float32":
                return rs.uniform(0.2, 1.5, size=shp).astype(np.float32)
            if kind == "near":
                # an almost-uniform table: entries differ, but only in the 7th digit
                return 0.25 + 1e-7 * rs.uniform(-1.0, 1.0, size=shp)
            if kind == "tiny":
                # small magnitudes: entries differ by factors, yet all lie below 1e-8
                return 1e-9 * rs.uniform(1.0, 5.0, size=shp)
            a = rs.uniform(0.2, 1.5, size=shp)
            tw = v.get("tweak")
            if tw == "eps":
                # a twin of another array of the circuit: equal to the printed precision,
                # different beyond it
                a = a + 1e-12 * (1.0 + np.arange(a.size).reshape(a.shape))
            elif tw == "middle":
                # a twin that differs in one entry in the middle (elided by repr of big arrays)
                flat = a.reshape(-1).copy()
                flat[flat.size // 2] += 0.5
                a = flat.reshape(a.shape)
            return a
        if "complex" in v:
            return complex(v["complex"][0], v["complex"][1])
        raise HarnessError("bad constant value spec")
    return v


def build_tensor_parameter(tp: Spec, shape: tuple[int, ...]) -> Any:
    from cirkit.symbolic.dtypes import DataType
    from cirkit.symbolic.parameters import ConstantParameter, TensorParameter

    if tp.get("constparam"):
        v = const_value(tp["init"], shape)
        if isinstance(v, np.ndarray) and v.shape != shape:
            v = np.broadcast_to(v, shape).copy()
        node = ConstantParameter(*shape, value=v)
        SPECS[id(node)] = (tp["init"], node)
        return node
    dtype = {"real": DataType.REAL, "complex": DataType.COMPLEX}[tp.get("dtype", "real")]
    node = TensorParameter(
        *shape,
        initializer=build_initializer(tp["init"], shape),
        learnable=bool(tp.get("learnable", True)),
        dtype=dtype,
    )
    SPECS[id(node)] = (tp["init"], node)
    return node


def declared_initializer(sp: Any) -> Any | None:
    """A fresh initialiser object built from the recipe's declaration for ``sp`` (None if ``sp``
    does not come from a hand recipe)."""
    ent = SPECS.get(id(sp))
    if ent is None or ent[1] is not sp:
        return None
    return _build_initializer(ent[0], tuple(sp.shape))


def build_parameter(ps: Spec, shape: tuple[int, ...]) -> Any:
    from cirkit.symbolic import parameters as P

    node = build_tensor_parameter(ps["tp"], shape)
    act = ps.get("act", "none")
    if act == "none":
        return P.Parameter.from_input(node)
    cls = {
        "softmax": P.SoftmaxParameter,
        "softplus": P.SoftplusParameter,
        "sigmoid": P.SigmoidParameter,
        "exp": P.ExpParameter,
        "square": P.SquareParameter,
    }[act]
    return P.Parameter.from_unary(cls(shape), node)


def build_hand(r: Spec) -> Any:
    from cirkit.symbolic.circuit import Circuit
    from cirkit.symbolic.layers import (
        CategoricalLayer,
        EmbeddingLayer,
        EvidenceLayer,
        GaussianLayer,
        HadamardLayer,
        SumLayer,
    )
    from cirkit.symbolic.parameters import ConstantParameter, Parameter
    from cirkit.utils.scope import Scope

    nv, k, K = r["nv"], r["k"], r["units"]
    _SHARED.clear()
    if len(SPECS) > 4096:
        SPECS.clear()
    layers: list[Any] = []
    in_layers: dict[Any, list[Any]] = {}
    tops: list[Any] = []
    for v, ispec in enumerate(r["inputs"]):
        lt = ispec["layer"]
        if lt == "embedding":
            l = EmbeddingLayer(Scope([v]), K, num_states=k, weight=build_parameter(ispec, (K, k)))
        elif lt == "categorical_probs":
            l = CategoricalLayer(Scope([v]), K, num_categories=k, probs=build_parameter(ispec, (K, k)))
        elif lt == "categorical_logits":
            l = CategoricalLayer(Scope([v]), K, num_categories=k, logits=build_parameter(ispec, (K, k)))
        elif lt == "gaussian":
            kw: dict[str, Any] = {}
            if ispec.get("log_partition") is not None:
                # an explicitly unnormalised Gaussian: a learnable log-partition parameter
                kw["log_partition"] = build_parameter(ispec["log_partition"], (K,))
            l = GaussianLayer(
                Scope([v]), K, mean=build_parameter(ispec, (K,)),
                stddev=build_parameter(ispec["stddev"], (K,)), **kw,
            )
        else:
            raise HarnessError(f"unknown hand input layer {lt}")
        if ispec.get("evidence") is not None:
            obs = ConstantParameter(1, value=ispec["evidence"])
            l = EvidenceLayer(l, observation=Parameter.from_input(obs))
        layers.append(l)
        in_layers[l] = []
        top = l
        if r.get("sums") is not None:
            sspec = r["sums"][v]
            s = SumLayer(K, K, arity=1, weight=build_parameter(sspec, (K, K)))
            layers.append(s)
            in_layers[s] = [l]
            top = s
        tops.append(top)
    if len(tops) > 1:
        prod = HadamardLayer(K, arity=len(tops))
        layers.append(prod)
        in_layers[prod] = tops
        last = prod
    else:
        last = tops[0]
    nc = r.get("nc", 1)
    out = SumLayer(K, nc, arity=1, weight=build_parameter(r["top"], (nc, K)))
    layers.append(out)
    in_layers[out] = [last]
    return Circuit(layers, in_layers, [out])
