"""W-A: the pipeline-history world (DESIGN.md sections 2, 4, 5.1, 5.2, 5.4, 5.6).

One long-lived pipeline context with base circuits, operator-derived circuits, optimisers,
a simulated durable byte store and a restart operation.  A plan is a list of *total*
operations (an operation whose precondition does not hold is a recorded no-op); after
every operation the enabled invariants are evaluated against the reference models.
"""

from __future__ import annotations

import io
import itertools
import random
from typing import Any

import numpy as np
import torch

from . import oracles, recipes
from .kernel import HarnessError, SimFault, Trace, Violation, compare_outputs, finite, tdigest
from .seams import FAULT_SEAM, HASH_SEAM, seed_rng

MAX_BRUTE = 4096
MAX_LAYERS = 2500  # layers(a) * layers(b) of a product


def _refusal_types() -> tuple[type, ...]:
    from cirkit.backend.compiler import CompilationRuleNotFound
    from cirkit.backend.registry import CompilationRuleNotFound as CompilationRuleNotFound2
    from cirkit.symbolic.circuit import StructuralPropertyError
    from cirkit.symbolic.registry import OperatorNotFound, OperatorSignatureNotFound

    return (
        StructuralPropertyError,
        NotImplementedError,
        OperatorSignatureNotFound,
        OperatorNotFound,
        CompilationRuleNotFound,
        CompilationRuleNotFound2,
    )


class Circ:
    def __init__(self, name: str, kind: str) -> None:
        self.name = name
        self.kind = kind  # "base" | "derived"
        self.recipe: dict[str, Any] | None = None
        self.spec: dict[str, Any] | None = None
        self.sc: Any = None
        self.cc: Any = None
        self.bases: tuple[str, ...] = ()
        self.srcs: tuple[str, ...] = ()
        self.alive = False
        self.excluded: str | None = None
        self.born = -1
        self.rel_ok = False  # I3: relation held at birth
        self.rederive_ok = False  # I2': agreed with a new derivation at birth
        self.own_edited = False  # its own constants were overwritten by an edited state dict
        self.mutated_after_birth = False
        self.domain: tuple[str, int] = ("discrete", 2)
        self.num_vars = 0
        self.opt: Any = None
        self.opt_spec: dict[str, Any] | None = None
        self.version = 0
        self.digest: str | None = None  # symbolic layer digest (rebuild check)
        self.tparams: list[Any] = []  # symbolic tensor parameters owned


class WorldA:
    def __init__(self, plan: dict[str, Any], trace: Trace) -> None:
        self.plan = plan
        self.tr = trace
        cfg = plan["config"]
        self.semiring: str = cfg["semiring"]
        self.fold: bool = cfg["fold"]
        self.optimize: bool = cfg["optimize"]
        self.checks: set[str] = set(cfg["checks"])
        # single precision (the library's default dtype) is a swarm member: same oracles, wider
        # tolerances; the defining relations (I3) are only tracked in double precision
        self.f32 = cfg.get("dtype") == "float32"
        self.tol_rel = 2e-4 if self.f32 else 1e-7
        self.tol_log = 2e-3 if self.f32 else 1e-7
        self.tol_exact = 1e-5 if self.f32 else 1e-12
        if self.f32:
            self.checks.discard("I3")
        self.circs: dict[str, Circ] = {}
        self.order: list[str] = []
        self.ctx: Any = None
        self.store: dict[str, tuple[Any, ...]] = {}  # slot -> (bytes, versions, owner, digests, outputs)
        self.version_counter = 0
        self.memo: dict[tuple[str, tuple[int, ...]], list[str]] = {}
        self.memo_vals: dict[tuple[str, tuple[int, ...]], list[torch.Tensor]] = {}
        self.probes: dict[int, list[np.ndarray | None]] = {}
        self.incarnation = 0
        self.refusals = _refusal_types()
        self.check_rng = random.Random(plan["check_seed"])
        self.hooks: list[Any] = []  # property-specific checkers: fn(world, op, info)
        self.foreign: list[Any] = []  # other contexts that compiled the same symbolic circuits
        self.on_reset: list[Any] = []  # observers of every single reset inside a burst
        self.on_compiled: list[Any] = []  # observers of a successful compile (before the birth tests)
        self.on_compile_error: list[Any] = []  # observers of a compile that raised: fn(circ, exc)
        self.loc: dict[int, tuple[Any, int]] = {}  # id(symbolic tensor) -> last registration
        self._loc_keepalive: list[Any] = []
        FAULT_SEAM.observer = self._observe
        self._new_context()

    def _observe(self, site: str, args: tuple, kwargs: dict | None = None) -> None:
        """The model's own copy of the compiled-parameter registry of the long-lived context:
        every ``register_compiled_parameter(sp, cp, fold_idx=...)`` it performs, latest wins."""
        if site != "TorchCompilerState.register_compiled_parameter" or self.ctx is None:
            return
        try:
            state = oracles.compiler_of(self.ctx).state
        except HarnessError:
            return
        if args[0] is not state:
            return  # a reference context of the harness
        sp, cp = args[1], args[2]
        fold_idx = (kwargs or {}).get("fold_idx")
        if fold_idx is None and len(args) > 3:
            fold_idx = args[3]
        self.loc[id(sp)] = (cp, 0 if fold_idx is None else int(fold_idx))
        self._loc_keepalive.append(sp)

    # ------------------------------------------------------------------ utilities

    def _new_context(self) -> None:
        from cirkit.pipeline import PipelineContext

        if (self.semiring, self.fold, self.optimize) == ("lse-sum", True, True) and \
                self.plan["probe_seed"] % 2 == 0:
            # the other public constructor (same flags)
            self.ctx = PipelineContext.from_default_backend()
            self.tr.count("ctx:from_default_backend")
        else:
            self.ctx = PipelineContext(
                backend="torch", semiring=self.semiring, fold=self.fold, optimize=self.optimize
            )
        self.loc = {}
        self._loc_keepalive = []

    def _guard(self, what: str, fn: Any) -> Any:
        """Call into the code under test where failing is not an option the properties leave open
        (re-initialising, listing the state, recompiling a compiled circuit): an exception there is
        reported as a violation (I4) with its cause, not as a failure of the harness."""
        try:
            return fn()
        except (HarnessError, Violation, SimFault):
            raise
        except MemoryError:
            raise
        except Exception as e:
            raise Violation("I4", f"{what} raised {type(e).__name__}: {str(e)[:140]}")

    def alive(self, kind: str | None = None) -> list[Circ]:
        return [
            self.circs[n]
            for n in self.order
            if self.circs[n].alive and (kind is None or self.circs[n].kind == kind)
        ]

    def get(self, name: str) -> Circ | None:
        c = self.circs.get(name)
        if c is None or not c.alive:
            return None
        return c

    def new_version(self, c: Circ) -> None:
        self.version_counter += 1
        c.version = self.version_counter

    def versions_of(self, c: Circ) -> tuple[int, ...]:
        return tuple(self.circs[b].version for b in c.bases)

    def probes_for(self, c: Circ) -> list[np.ndarray | None]:
        """Probe batches for circuit c (None for an empty-scope circuit)."""
        if len(c.cc.scope) == 0:
            return [None]
        key = (c.num_vars, c.domain)
        ps = self._probe_cache.get(key)
        if ps is None:
            rng = random.Random(self.plan["probe_seed"] + 7919 * c.num_vars + c.domain[1])
            sizes = self.plan["config"].get("batches", [3, 1])
            ps = [recipes.probe_inputs(rng, c.domain, c.num_vars, b) for b in sizes]
            self._probe_cache[key] = ps
        return ps

    _probe_cache: dict[Any, list[np.ndarray | None]]

    def eval_all(self, c: Circ) -> list[torch.Tensor]:
        return [oracles.evaluate(c.cc, X) for X in self.probes_for(c)]

    def theta(self, sp: Any) -> np.ndarray:
        """Current value of a symbolic tensor parameter, read through the compiler's registry -
        which must still hold the last registration the compiler itself made for it (the
        registry 'must stay valid across later compilations in the same context')."""
        rec = self.loc.get(id(sp))
        try:
            tp, idx = oracles.registry_entry(self.ctx, sp)
        except (HarnessError, Violation):
            raise
        except Exception as e:
            if rec is not None and "I1" in self.checks:
                raise Violation(
                    "I1",
                    f"the compiler's registry no longer has the entry it registered for a tensor "
                    f"parameter of shape {tuple(sp.shape)} ({type(e).__name__})",
                )
            if rec is None:
                raise
            tp, idx = rec
        else:
            if rec is not None and "I1" in self.checks and (tp is not rec[0] or int(idx) != rec[1]):
                raise Violation(
                    "I1",
                    f"the compiler's registry designates another tensor / fold for a parameter of "
                    f"shape {tuple(sp.shape)} than the last one it registered (fold {idx} vs {rec[1]})",
                )
        return tp()[idx].detach().cpu().resolve_conj().numpy().copy()

    def learnable_tensors(self, c: Circ) -> list[torch.nn.Parameter]:
        seen: set[int] = set()
        out = []
        for p in c.cc.parameters():
            if p.requires_grad and id(p) not in seen:
                seen.add(id(p))
                out.append(p)
        return out

    def params_digest(self, c: Circ) -> str:
        return tdigest(
            torch.cat(
                [
                    (torch.view_as_real(p.detach()) if p.is_complex() else p.detach())
                    .reshape(-1)
                    .to(torch.float64)
                    for p in c.cc.parameters()
                ]
                + [torch.zeros(1, dtype=torch.float64)]
            )
        )

    # ------------------------------------------------------------------ run

    def run(self) -> None:
        self._probe_cache = {}
        oracles.GRAD_MODE = "no_grad"
        for i, op in enumerate(self.plan["ops"]):
            self.tr.step = i
            self.tr.count(f"op:{op['op']}")
            fn = getattr(self, "op_" + op["op"], None)
            if fn is None:
                raise HarnessError(f"unknown op {op['op']}")
            info = fn(op) or {}
            self.tr.ev(op["op"], info.get("status", "ok"))
            self.tr.count(f"status:{op['op']}:{info.get('status', 'ok')}")
            if op.get("quiet") and "born" not in info and not info.get("restart"):
                # no observation after this operation: the oracles evaluate circuits, and an
                # evaluation is itself an event of the history (lazily materialised state would
                # never be seen un-materialised otherwise).  The next operation's checks - and the
                # final ones - still see everything.
                self.tr.count("quiet-ops")
                for h in self.hooks:
                    if getattr(h, "always", False):
                        h(self, op, info)
                continue
            if info.get("status", "ok") != "noop":
                self.after(op, info)
        self.tr.step = len(self.plan["ops"])
        self.final()

    # ------------------------------------------------------------------ operations

    def op_compile_base(self, op: dict[str, Any]) -> dict[str, Any]:
        name = op["name"]
        if name in self.circs:
            return {"status": "noop"}
        c = Circ(name, "base")
        c.recipe = op["recipe"]
        self.circs[name] = c
        self.order.append(name)
        try:
            c.sc = recipes.build(c.recipe)
        except Exception as e:  # construction refused by the public API
            c.excluded = f"build:{type(e).__name__}"
            self.tr.ev("excluded", name, c.excluded, str(e)[:100])
            self.tr.count(f"excluded:{c.excluded}")
            return {"status": "excluded"}
        c.digest = recipes.layer_digest(c.sc)
        c.domain = recipes.recipe_domain(c.recipe)
        c.num_vars = max(c.sc.scope) + 1 if len(c.sc.scope) else 0
        c.bases = (name,)
        c.tparams = oracles.symbolic_tensor_parameters(c.sc)
        c.opt_spec = op.get("opt")
        return self._compile_circ(c, op)

    def _compile_circ(self, c: Circ, op: dict[str, Any], precompiled: Any = None) -> dict[str, Any]:
        """Compile c.sc in the long-lived context (with optional fault + retry) and
        decide whether it is tracked (birth exclusion).  ``precompiled``: the object the
        module-level ``cirkit.pipeline.compile`` returned inside ``with ctx`` - it *is* the
        derived circuit the user holds, whatever context it ended up in."""
        fault = op.get("fault") if precompiled is None else None
        info: dict[str, Any] = {}
        if fault is not None:
            seed_rng(op["seed"])
            try:
                with FAULT_SEAM.arm(fault["at"], fault.get("when", "before")):
                    self.ctx.compile(c.sc)
                self.tr.count("fault:not-reached")
                info["fault"] = "not-reached"
            except SimFault:
                self.tr.count(f"fault:fired:{FAULT_SEAM.last_fired}")
                self.tr.count("fault:fired")
                info["fault"] = "fired"
                self.tr.ev("fault", FAULT_SEAM.last_fired)
                # nothing must be half-registered, and everything else must still be right
                self.check_fresh(list(self.alive()), where="after-fault")
            except (HarnessError, Violation):
                raise
            except Exception as e:
                c.excluded = f"birth:{type(e).__name__}"
                self.tr.count(f"excluded:{c.excluded}")
                return {"status": "excluded"}
        seed_rng(op["seed"] + 1)
        try:
            if precompiled is not None:
                cc = precompiled
            else:
                with FAULT_SEAM.arm(-1):
                    cc = self.ctx.compile(c.sc)
                self.tr.count("crossings", FAULT_SEAM.last_count)
        except self.refusals as e:
            c.excluded = f"refusal:{type(e).__name__}"
            self.tr.ev("excluded", c.name, c.excluded, str(e)[:100])
            self.tr.count(f"excluded:{c.excluded}")
            return {"status": "excluded"}
        except SimFault:
            raise HarnessError("SimFault without an armed fault")
        except Exception as e:
            for fn in self.on_compile_error:
                fn(c, e)
            # could the same circuit be compiled at all?  (state-independent failure = birth)
            if self._fresh_compile_ok(c):
                raise Violation(
                    "I4",
                    f"{c.name}: compiles in a fresh context but not in the long-lived one: "
                    f"{type(e).__name__}: {str(e)[:120]}",
                )
            c.excluded = f"birth:{type(e).__name__}"
            self.tr.ev("excluded", c.name, c.excluded, str(e)[:100])
            self.tr.count(f"excluded:{c.excluded}")
            return {"status": "excluded"}
        c.cc = cc
        for fn in self.on_compiled:
            fn(c)
        if "I1" in self.checks:
            # the registry is how derived circuits reach these tensors: straight after a
            # compilation it must designate a readable slice for every tensor parameter of the
            # circuit (otherwise nothing can be derived from it in this context)
            for sp in c.tparams:
                try:
                    self.theta(sp)
                except (HarnessError, Violation):
                    raise
                except Exception as e:
                    raise Violation(
                        "I1",
                        f"after compiling {c.name} ({self._describe(c)}) the registry entry of its "
                        f"tensor parameter of shape {tuple(sp.shape)} cannot be read: "
                        f"{type(e).__name__}: {str(e)[:100]}",
                    )
        # birth: evaluate immediately; the same-flags reference must exist as well
        try:
            outs = [oracles.evaluate(cc, X) for X in self._probes_for_new(c)]
        except Exception as e:
            # Differential birth test: the same circuit with every tensor / reference replaced by
            # a constant holding the current value, compiled with the same flags, differs from
            # this one only in the sharing mechanism (pointers, registry, fold indices).  If that
            # one evaluates the probe batches and this one does not, the failure is the
            # mechanism's (I4); if both fail it is a function of (circuit, flags): excluded.
            if "I4" in self.checks and self._fresh_compile_ok(c):
                raise Violation(
                    "I4",
                    f"{c.name} ({self._describe(c)}) cannot be evaluated right after compilation "
                    f"({type(e).__name__}: {str(e)[:120]}) although its dereferenced recompilation "
                    f"with the same flags can",
                )
            c.excluded = f"birth-eval:{type(e).__name__}"
            self.tr.ev("excluded", c.name, c.excluded, str(e)[:100])
            self.tr.count(f"excluded:{c.excluded}")
            return {"status": "excluded"}
        try:
            ref = self._reference(c)
            for X in self._probes_for_new(c):
                oracles.evaluate(ref, X)
        except (HarnessError, Violation):
            raise
        except Exception as e:
            c.excluded = f"birth-ref:{type(e).__name__}"
            self.tr.ev("excluded", c.name, c.excluded, str(e)[:100])
            self.tr.count(f"excluded:{c.excluded}")
            return {"status": "excluded"}
        c.alive = True
        c.born = self.tr.step
        if c.kind == "base":
            self.new_version(c)
            self._make_optimizer(c)
        self.tr.ev("born", c.name, len(c.cc.layers), [tdigest(o) for o in outs])
        self.tr.count(f"born:{c.kind}")
        info["status"] = "ok"
        info["born"] = c
        return info

    def _probes_for_new(self, c: Circ) -> list[np.ndarray | None]:
        if len(c.cc.scope) == 0:
            return [None]
        return self.probes_for(c)

    def _fresh_compile_ok(self, c: Circ) -> bool:
        try:
            ref = self._reference(c)
            for X in ([None] if len(c.sc.scope) == 0 else self.probes_for_sc(c)):
                oracles.evaluate(ref, X)
            return True
        except (HarnessError, Violation):
            raise
        except Exception:
            return False

    def _reference_evaluates(self, c: Circ, X: np.ndarray | None) -> bool:
        try:
            oracles.evaluate(self._reference(c), X)
            return True
        except (HarnessError, Violation):
            raise
        except Exception:
            return False

    def probes_for_sc(self, c: Circ) -> list[np.ndarray | None]:
        key = (c.num_vars, c.domain)
        ps = self._probe_cache.get(key)
        if ps is None:
            rng = random.Random(self.plan["probe_seed"] + 7919 * c.num_vars + c.domain[1])
            sizes = self.plan["config"].get("batches", [3, 1])
            ps = [recipes.probe_inputs(rng, c.domain, c.num_vars, b) for b in sizes]
            self._probe_cache[key] = ps
        return ps

    def _reference(self, c: Circ, *, plain: bool = False) -> Any:
        clone = oracles.deref_clone(c.sc, self.theta)
        if plain:
            return oracles.compile_reference(
                clone, semiring=self.semiring, fold=False, optimize=False
            )
        return oracles.compile_reference(
            clone, semiring=self.semiring, fold=self.fold, optimize=self.optimize
        )

    def _rederived_reference(self, c: Circ) -> Any:
        """R1': the operator of ``c`` applied afresh to *dereferenced clones of its operands*
        (every tensor / reference of the operand replaced by a constant holding its current
        value), compiled with the same flags in a throw-away context.  What a derived circuit
        computes must be what deriving it now from its operands would compute - whatever kind of
        tensor of the operand was updated since.  Operator defects are on both sides and cancel."""
        from cirkit.pipeline import PipelineContext

        clones: dict[str, Any] = {}
        for sname in c.srcs:
            sc_ = self.get(sname)
            if sc_ is None:
                raise HarnessError("source of a live derived circuit is gone")
            if sname not in clones:
                clones[sname] = oracles.deref_clone(sc_.sc, self.theta)
        ctx2 = PipelineContext(backend="torch", semiring=self.semiring, fold=self.fold,
                               optimize=self.optimize)
        dsc = self._rederive(c, {}, scs=[clones[sn] for sn in c.srcs], ctx=ctx2)
        cc = ctx2.compile(dsc)
        oracles.init_submodule_tensors(cc)
        return cc

    def check_rederived(self, circs: list[Circ], where: str) -> None:
        """I2' (freshness against a new derivation), for derived circuits whose own constants were
        not edited and for which the two agreed at birth."""
        if "I2" not in self.checks:
            return
        for c in circs:
            if c.kind != "derived" or not c.rederive_ok or c.own_edited:
                continue
            try:
                outs = self.eval_all(c)
                ref = self._rederived_reference(c)
                refs = [oracles.evaluate(ref, X) for X in self.probes_for(c)]
            except (HarnessError, Violation):
                raise
            except Exception as e:
                self.tr.count(f"rederive:no-verdict:{type(e).__name__}")
                continue
            for a, b in zip(outs, refs):
                self._cmp("I2r", c, a, b, where + " (against a new derivation from its operands)")

    def _make_optimizer(self, c: Circ) -> None:
        spec = c.opt_spec or {"kind": "sgd", "lr": 0.05}
        ps = self.learnable_tensors(c)
        if not ps:
            c.opt = None
            return
        if spec["kind"] == "adam":
            c.opt = torch.optim.Adam(ps, lr=spec["lr"])
        else:
            c.opt = torch.optim.SGD(ps, lr=spec["lr"], momentum=spec.get("momentum", 0.0))

    def op_derive(self, op: dict[str, Any]) -> dict[str, Any]:
        import cirkit.symbolic.functional as SF
        from cirkit.utils.scope import Scope

        name = op["name"]
        if name in self.circs:
            return {"status": "noop"}
        spec = op["spec"]
        srcs = [self.get(s) for s in spec["src"]]
        if any(s is None for s in srcs):
            return {"status": "noop"}
        c = Circ(name, "derived")
        c.spec = spec
        c.srcs = tuple(spec["src"])
        bases: list[str] = []
        for s in srcs:
            for b in s.bases:  # type: ignore[union-attr]
                if b not in bases:
                    bases.append(b)
        c.bases = tuple(bases)
        c.domain = srcs[0].domain  # type: ignore[union-attr]
        c.num_vars = max(s.num_vars for s in srcs)  # type: ignore[union-attr]
        self.circs[name] = c
        self.order.append(name)
        opr = spec["opr"]
        via = spec.get("via", "symbolic")
        precompiled: Any = None
        scs = [s.sc for s in srcs]  # type: ignore[union-attr]
        ccs = [s.cc for s in srcs]  # type: ignore[union-attr]
        if (opr == "multiply" or spec.get("pre") == "multiply") and \
                len(scs[0].layers) * len(scs[1].layers) > MAX_LAYERS:
            # bound of the workload (DESIGN.md 2.4): unfolded products of concatenations reach
            # thousands of layers and a minute per run; every reference recompilation pays again
            c.excluded = "bound:too-many-layers"
            self.tr.count(f"excluded:{c.excluded}")
            return {"status": "excluded"}
        if opr == "differentiate" and len(scs[0].layers) * max(1, len(scs[0].scope)) > MAX_LAYERS:
            # the derivative circuit has one block per variable: same bound as for products
            c.excluded = "bound:too-many-layers"
            self.tr.count(f"excluded:{c.excluded}")
            return {"status": "excluded"}
        try:
            if via == "pipeline" and opr in ("integrate", "multiply", "conjugate",
                                             "differentiate", "concatenate"):
                seed_rng(op["seed"] + 1)
                if opr == "integrate":
                    sc_scope = None if spec.get("scope") is None else Scope(spec["scope"])
                    cc = self.ctx.integrate(ccs[0], scope=sc_scope)
                elif opr == "multiply":
                    cc = self.ctx.multiply(ccs[0], ccs[1])
                elif opr == "conjugate":
                    cc = self.ctx.conjugate(ccs[0])
                elif opr == "differentiate":
                    cc = self.ctx.differentiate(ccs[0], order=spec.get("order", 1))
                else:
                    cc = self.ctx.concatenate(*ccs)
                c.sc = self.ctx.get_symbolic_circuit(cc)
            else:
                with self.ctx:
                    if via == "module" and spec.get("abort_inner"):
                        # a nested block of another context, left by an exception, just before
                        # the derivation: the long-lived context must be the active one again
                        from cirkit.pipeline import PipelineContext

                        try:
                            with PipelineContext(backend="torch", semiring=self.semiring,
                                                 fold=not self.fold, optimize=self.optimize):
                                raise SimFault("exception escaping a nested context block")
                        except SimFault:
                            self.tr.count("fault:fired:nested-block-exit")
                            self.tr.count("fault:fired")
                    pre = spec.get("pre")
                    if pre is not None:
                        # an intermediate result that is *not* compiled on its own: compiling the
                        # outer circuit makes the compiler walk the pipeline (operands first)
                        if pre == "multiply":
                            scs = [SF.multiply(scs[0], scs[1])]
                        elif pre == "conjugate":
                            scs = [SF.conjugate(scs[0])]
                        elif pre == "concatenate":
                            scs = [SF.concatenate(scs)]
                        else:
                            raise HarnessError(f"unknown inner operator {pre}")
                        self.tr.count(f"derive:pipeline-intermediate:{pre}")
                    if opr == "integrate":
                        sc_scope = None if spec.get("scope") is None else Scope(spec["scope"])
                        c.sc = SF.integrate(scs[0], scope=sc_scope)
                    elif opr == "multiply":
                        c.sc = SF.multiply(scs[0], scs[1])
                    elif opr == "conjugate":
                        c.sc = SF.conjugate(scs[0])
                    elif opr == "differentiate":
                        c.sc = SF.differentiate(scs[0], order=spec.get("order", 1))
                    elif opr == "evidence":
                        obs = {int(k): v for k, v in spec["obs"].items()}
                        c.sc = SF.evidence(scs[0], obs)
                    elif opr == "concatenate":
                        c.sc = SF.concatenate(scs)
                    else:
                        raise HarnessError(f"unknown operator {opr}")
                    if via == "module":
                        import cirkit.pipeline as _pl

                        seed_rng(op["seed"] + 1)
                        precompiled = _pl.compile(c.sc)
        except (HarnessError, Violation):
            raise
        except (*self.refusals, ValueError) as e:
            c.excluded = f"refusal:{type(e).__name__}"
            self.tr.ev("excluded", c.name, c.excluded, str(e)[:100])
            self.tr.count(f"excluded:{c.excluded}")
            return {"status": "excluded"}
        except Exception as e:
            c.excluded = f"birth:{type(e).__name__}"
            self.tr.ev("excluded", c.name, c.excluded, str(e)[:100])
            self.tr.count(f"excluded:{c.excluded}")
            return {"status": "excluded"}
        c.tparams = oracles.symbolic_tensor_parameters(c.sc)
        self.tr.count(f"derive:{opr}:{via}")
        info = self._compile_circ(c, op, precompiled=precompiled)
        if c.alive:
            c.rel_ok = self._relation_holds(c, rel=self.REL_BIRTH, nontrivial=True) is True
            self.tr.count("rel:tracked" if c.rel_ok else "rel:untracked")
            if "I2" in self.checks:
                try:
                    ref = self._rederived_reference(c)
                    ok = True
                    for X in self.probes_for(c):
                        v, _ = compare_outputs(oracles.evaluate(c.cc, X), oracles.evaluate(ref, X),
                                               self.semiring, rel=self.tol_rel, logabs=self.tol_log)
                        ok = ok and v in ("ok", "undefined")
                    c.rederive_ok = ok
                except (HarnessError, Violation):
                    raise
                except Exception:
                    c.rederive_ok = False
                self.tr.count("rederive:tracked" if c.rederive_ok else "rederive:untracked")
        return info

    def _mutated(self, base: Circ) -> None:
        self.new_version(base)
        for d in self.alive():
            if base.name in d.bases and d is not base:
                d.mutated_after_birth = True

    def _snapshot_tensors(self, c: Circ) -> list[torch.Tensor]:
        return [p.detach().clone() for p in c.cc.parameters()]

    def _restore_tensors(self, c: Circ, snap: list[torch.Tensor]) -> None:
        with torch.no_grad():
            for p, s in zip(c.cc.parameters(), snap):
                p.copy_(s)

    def op_perturb(self, op: dict[str, Any]) -> dict[str, Any]:
        c = self.get(op["base"])
        if c is None or c.kind != "base":
            return {"status": "noop"}
        ps = self.learnable_tensors(c)
        if not ps:
            return {"status": "noop"}
        g = torch.Generator().manual_seed(op["seed"])
        snap = self._snapshot_tensors(c)
        mode = op.get("mode", "add")
        scale = float(op.get("scale", 0.5))
        with torch.no_grad():
            for p in ps:
                real_dt = p.real.dtype if p.is_complex() else p.dtype
                noise = torch.randn(p.shape, generator=g, dtype=real_dt)
                if p.is_complex():
                    noise = torch.complex(noise, torch.randn(p.shape, generator=g, dtype=real_dt))
                if mode == "add":
                    p.add_(scale * noise)
                elif mode == "mulpos":
                    f = torch.exp(scale * (noise.real if noise.is_complex() else noise))
                    p.mul_(f.clamp(1e-3, 1e3))
                elif mode == "copy":
                    p.copy_(scale * noise)
                else:
                    raise HarnessError(f"unknown perturb mode {mode}")
        if not all(finite(p) for p in ps):
            self._restore_tensors(c, snap)
            self.tr.count("diverged:perturb")
            return {"status": "diverged"}
        self._mutated(c)
        return {"status": "ok", "mutated": [c.name]}

    def _loss(self, c: Circ, op: dict[str, Any]) -> torch.Tensor | None:
        kind = op.get("loss", "tanh")
        Xs = self.probes_for(c)
        X = Xs[0]
        y = c.cc() if X is None else c.cc(torch.from_numpy(X))
        if kind == "nll_z":
            # -log c(x) + log Z with Z read from a compiled integrate(c), if there is one
            z = next((d for d in self.alive("derived")
                      if (d.spec or {}).get("opr") == "integrate" and (d.spec or {}).get("scope") is None
                      and d.srcs == (c.name,) and not (d.spec or {}).get("pre")), None)
            base = self._loss(c, {**op, "loss": "nll"})
            if z is None or base is None:
                return base
            zz = z.cc()
            zz = zz.real if zz.is_complex() else zz
            lz = torch.log(zz) if self.semiring == "sum-product" else zz
            lz = lz[torch.isfinite(lz)]
            return base + (lz.mean() if lz.numel() else 0.0)
        if kind == "nll":
            # negative log-likelihood of the probe batch (log-space or linear outputs)
            if self.semiring == "sum-product":
                yy = torch.log(y.real if y.is_complex() else y)
            else:
                yy = y.real if y.is_complex() else y
            yy = yy[torch.isfinite(yy)]
            if yy.numel() == 0:
                return None
            return -yy.mean()
        yr = torch.view_as_real(y) if y.is_complex() else y
        yr = yr[torch.isfinite(yr)]
        if yr.numel() == 0:
            return None
        return torch.tanh(0.1 * yr).sum()

    def op_optim(self, op: dict[str, Any]) -> dict[str, Any]:
        b = self.get(op["base"])
        if b is None or b.kind != "base" or b.opt is None:
            return {"status": "noop"}
        via = self.get(op.get("via", op["base"]))
        if via is None or b.name not in via.bases:
            via = b
        if op.get("joint"):
            # the usual way of training a model together with what was derived from it:
            # list(c.parameters()) + list(z.parameters()) - whatever requires gradients
            ps, seen = [], set()
            for x in [b] + [d for d in self.alive("derived") if b.name in d.bases]:
                for p_ in x.cc.parameters():
                    if p_.requires_grad and id(p_) not in seen:
                        seen.add(id(p_))
                        ps.append(p_)
            if {id(p_) for g_ in b.opt.param_groups for p_ in g_["params"]} != seen and ps:
                spec = b.opt_spec or {"kind": "sgd", "lr": 0.05}
                b.opt = (torch.optim.Adam(ps, lr=spec["lr"]) if spec["kind"] == "adam"
                         else torch.optim.SGD(ps, lr=spec["lr"], momentum=spec.get("momentum", 0.0)))
                self.tr.count("optim:joint-parameter-list")
        snap = self._snapshot_tensors(b)
        # optimiser state must be restorable too when a step diverges
        try:
            for _ in range(int(op.get("steps", 1))):
                b.opt.zero_grad()
                loss = self._loss(via, op)
                if loss is None or not loss.requires_grad:
                    self.tr.count("optim:no-grad")
                    break
                loss.backward()
                b.opt.step()
        except Exception as e:
            self._restore_tensors(b, snap)
            if via.alive and self.ctx.has_symbolic(via.cc):
                # a circuit that evaluated at birth must keep evaluating (I4) - but autograd
                # failures belong to C13; record, do not raise
                self.tr.count(f"optim:error:{type(e).__name__}")
            return {"status": "error"}
        ps = self.learnable_tensors(b)
        if not all(finite(p) for p in ps):
            self._restore_tensors(b, snap)
            b.opt.state.clear()
            self.tr.count("diverged:optim")
            return {"status": "diverged"}
        self._mutated(b)
        self.tr.count("optim:via-derived" if via is not b else "optim:via-base")
        return {"status": "ok", "mutated": [b.name]}

    def op_reset(self, op: dict[str, Any]) -> dict[str, Any]:
        c = self.get(op["target"])
        if c is None:
            return {"status": "noop"}
        before = {b: self.params_digest(self.circs[b]) for b in c.bases}
        seed_rng(op["seed"])
        fault = op.get("fault")
        if fault is not None:
            # an exception in the middle of a re-initialisation: some tensors are redrawn, some
            # are not - one more in-place update; everything derived must follow it
            try:
                with FAULT_SEAM.arm(fault["at"], fault.get("when", "before")):
                    self._guard(f"reset_parameters() of {c.name}", c.cc.reset_parameters)
                self.tr.count("fault:not-reached")
            except SimFault:
                self.tr.count(f"fault:fired:{FAULT_SEAM.last_fired}")
                self.tr.count("fault:fired")
                self.tr.ev("fault", FAULT_SEAM.last_fired)
                changed = [b for b in c.bases if self.params_digest(self.circs[b]) != before[b]]
                for b in changed:
                    self._mutated(self.circs[b])
                return {"status": "faulted", "mutated": changed, "recheck": True}
        else:
            self._guard(f"reset_parameters() of {c.name}", c.cc.reset_parameters)
        info: dict[str, Any] = {"status": "ok", "reset": c}
        if c.kind == "base":
            self._mutated(c)
            info["mutated"] = [c.name]
        else:
            # On the pinned tree a reset of a derived circuit leaves the operands' tensors
            # untouched (pointers do not re-initialise what they point to).  C10 does not
            # promise that, so it is not an invariant: if a tree does re-draw the shared
            # tensors, that is one more in-place re-initialisation of the operand, and the
            # model follows it (everything derived must then follow it too: I2 / I3).
            changed = [b for b in c.bases if self.params_digest(self.circs[b]) != before[b]]
            for b in changed:
                self._mutated(self.circs[b])
                self.tr.count("reset:derived-redrew-operand")
            if changed:
                info["mutated"] = changed
        return info

    def op_reset_burst(self, op: dict[str, Any]) -> dict[str, Any]:
        """``count`` resets of one circuit in a row (repeated resets are a history too); the
        ``on_reset`` observers see the state after each of them."""
        c = self.get(op["target"])
        if c is None:
            return {"status": "noop"}
        before = {b: self.params_digest(self.circs[b]) for b in c.bases}
        n = int(op.get("count", 10))
        for j in range(n):
            seed_rng(op["seed"] + 101 * j)
            self._guard(f"reset_parameters() #{j + 1} of {c.name}", c.cc.reset_parameters)
            for fn in self.on_reset:
                fn(c, j)
        self.tr.count("resets-in-bursts", n)
        changed = [b for b in c.bases if self.params_digest(self.circs[b]) != before[b]]
        for b in changed:
            self._mutated(self.circs[b])
        return {"status": "ok", "mutated": changed, "burst": c, "resets": n}

    def op_mode(self, op: dict[str, Any]) -> dict[str, Any]:
        """Switch a compiled circuit between training and evaluation mode (what a training loop
        does around validation): no parameter changes, so nothing it computes may change."""
        c = self.get(op["target"])
        if c is None:
            return {"status": "noop"}
        c.cc.train(bool(op.get("train", False)))
        if op.get("grad") is not None:
            # ... and how the harness evaluates from now on: no_grad / inference_mode / autograd on
            oracles.GRAD_MODE = op["grad"]
            self.tr.count(f"grad-mode:{op['grad']}")
        return {"status": "ok", "recheck": True}

    def op_foreign_compile(self, op: dict[str, Any]) -> dict[str, Any]:
        """Another pipeline context (kept alive) compiles the *same symbolic circuit objects*, e.g.
        to compare flag settings.  Nothing in the long-lived context may change: what is derived
        in it afterwards must still read its own operands' tensors."""
        from cirkit.pipeline import PipelineContext

        c = self.get(op["target"])
        if c is None:
            return {"status": "noop"}
        fl = op.get("flags", {})
        ctx2 = PipelineContext(backend="torch", semiring=self.semiring,
                               fold=bool(fl.get("fold", self.fold)),
                               optimize=bool(fl.get("optimize", self.optimize)))
        seed_rng(op["seed"])
        try:
            cc2 = ctx2.compile(c.sc)
        except Exception as e:
            self.tr.count(f"foreign-compile:failed:{type(e).__name__}")
            return {"status": "failed", "recheck": True}
        self.foreign.append((ctx2, cc2))
        self.tr.count("foreign-compile:ok")
        return {"status": "ok", "recheck": True}

    def op_save(self, op: dict[str, Any]) -> dict[str, Any]:
        c = self.get(op["target"])
        if c is None:
            return {"status": "noop"}
        buf = io.BytesIO()
        sd = self._guard(f"state_dict() of {c.name}", c.cc.state_dict)
        torch.save(sd, buf)
        vers = {b: self.circs[b].version for b in c.bases}
        digs = {b: self.params_digest(self.circs[b]) for b in c.bases}
        try:
            outs = [o.clone() for o in self.eval_all(c)]
        except Exception:
            outs = None
        self.store[op["slot"]] = (buf.getvalue(), vers, c.name, digs, outs)
        self.tr.ev("saved", op["slot"], c.name, sorted(vers.items()), len(sd))
        return {"status": "ok", "saved": c, "state_dict": sd}

    def op_load(self, op: dict[str, Any]) -> dict[str, Any]:
        c = self.get(op["target"])
        ent = self.store.get(op["slot"])
        if c is None or ent is None:
            return {"status": "noop"}
        data, vers, owner, digs, outs = ent
        if owner != c.name:
            return {"status": "noop"}
        sd = torch.load(io.BytesIO(data), weights_only=True)
        assign = bool(op.get("assign", False))
        try:
            # assign=True: torch replaces the Parameter objects by the loaded tensors instead of
            # copying into them - the other documented way of loading a checkpoint
            res = c.cc.load_state_dict(sd, strict=True, assign=assign)
            if assign:
                self.tr.count("load:assign")
                for b in c.bases:
                    bc = self.circs.get(b)
                    if bc is not None and bc.alive:
                        self._make_optimizer(bc)  # the optimiser held the replaced objects
        except Exception as e:
            if "S1" not in self.checks:
                # whether a state_dict loads back is C19's subject; for the other properties a
                # refused load is an update that did not happen
                self.tr.count(f"load:refused:{type(e).__name__}")
                return {"status": "refused"}
            raise Violation(
                "S1",
                f"load_state_dict(strict=True) of {c.name} ({self._describe(c)}) failed in "
                f"incarnation {self.incarnation}: {type(e).__name__}: {str(e)[:200]}",
            )
        if (res.missing_keys or res.unexpected_keys) and "S1" in self.checks:
            raise Violation("S1", f"{c.name}: missing {res.missing_keys} unexpected {res.unexpected_keys}")
        # A derived circuit only stores the operand tensors it reads: an operand is back at the
        # saved version only if *all* its tensors are what they were at save time; otherwise it
        # is in a new (mixed) state - a legitimate update like any other.
        mutated = []
        for b, v in vers.items():
            bc = self.circs.get(b)
            if bc is None or not bc.alive:
                continue
            if self.params_digest(bc) == digs[b]:
                bc.version = v
                self.tr.count("load:version-restored")
            else:
                self.new_version(bc)
                self.tr.count("load:version-mixed")
            mutated.append(b)
            for d in self.alive():
                if b in d.bases and d is not bc:
                    d.mutated_after_birth = True
        self.tr.count("load:fresh" if self.incarnation > 0 else "load:same")
        if "D2" in self.checks and outs is not None:
            # the property itself: the loaded circuit computes what the saved one computed
            try:
                now = self.eval_all(c)
            except Exception as e:
                raise Violation(
                    "D2", f"{c.name} ({self._describe(c)}) raises {type(e).__name__} after loading "
                          f"its saved state: {str(e)[:120]}")
            for a, b_ in zip(now, outs):
                self.tr.count("cmp:D2")
                v_, d_ = compare_outputs(a, b_, self.semiring, rel=self.tol_exact, logabs=self.tol_exact)
                if v_ == "undefined":
                    self.tr.count("cmp:undefined")
                elif v_ != "ok":
                    raise Violation(
                        "D2",
                        f"{c.name} ({self._describe(c)}) does not compute the outputs it had when "
                        f"its state was saved, after loading that state in incarnation "
                        f"{self.incarnation} [{v_}, |d|={d_:.3e}]",
                    )
                elif d_ == 0.0:
                    self.tr.count("cmp:D2-exact")
        return {"status": "ok", "loaded": c, "mutated": mutated}

    def op_load_edited(self, op: dict[str, Any]) -> dict[str, Any]:
        """``load_state_dict`` of an *edited* dictionary: the circuit's own state with its
        non-learnable tensors (constants, frozen tables, observations) changed as well - what
        loading a checkpoint written elsewhere does.  One more in-place update of the operand:
        everything derived from it must follow."""
        c = self.get(op["target"])
        if c is None:
            return {"status": "noop"}
        sd = {k: v.clone() for k, v in c.cc.state_dict().items()}
        # only tensors that belong to a *tracked* circuit are edited: the dictionary of a derived
        # circuit also reaches the constants of intermediate results that were compiled as part of
        # a pipeline but are not tracked on their own (composite derivations) - the model could not
        # follow an edit of those
        tracked: set[int] = set()
        for x in self.alive():
            for sp in x.tparams:
                try:
                    tp_, _ = oracles.registry_entry(self.ctx, sp)
                    tracked.add(id(tp_()))
                except Exception:
                    pass
        frozen = {n for n, p in c.cc.named_parameters() if not p.requires_grad and id(p) in tracked}
        g = torch.Generator().manual_seed(op["seed"])
        edited = 0
        k_dom = c.domain[1] if c.domain[0] == "discrete" else 0
        for key in sorted(sd):
            if key not in frozen:
                continue
            t = sd[key]
            if t.is_floating_point() or t.is_complex():
                noise = torch.randn(t.shape, generator=g, dtype=t.real.dtype if t.is_complex() else t.dtype)
                if op.get("mode", "mul") == "mul":
                    sd[key] = t * torch.exp(float(op.get("scale", 0.5)) * noise).clamp(1e-2, 1e2)
                else:
                    sd[key] = t + float(op.get("scale", 0.5)) * noise
                edited += 1
            elif t.dtype == torch.int64 and k_dom >= 2 and "observation" in key:
                sd[key] = (t + 1) % k_dom  # another value of the domain
                edited += 1
        if not edited:
            return {"status": "noop"}

        def own_digest(x: Circ) -> str:
            return "|".join(tdigest(self.theta(sp)) for sp in x.tparams)

        # the dictionary of a derived circuit also lists tensors of the circuits it was derived
        # from (it reaches them through pointers): whose constants were edited is found by value
        before_own = {x.name: own_digest(x) for x in self.alive("derived")}
        try:
            c.cc.load_state_dict(sd, strict=True)
        except Exception as e:
            self.tr.count(f"load-edited:refused:{type(e).__name__}")
            return {"status": "refused"}
        for x in self.alive("derived"):
            if own_digest(x) != before_own[x.name]:
                x.own_edited = True
                x.rel_ok = False
        self.tr.count("load-edited:tensors", edited)
        for b in c.bases:
            self._mutated(self.circs[b])
        for d in self.alive():
            if d is not c and (c.name in d.srcs or set(c.bases) & set(d.bases)):
                d.mutated_after_birth = True
        if c.kind == "derived":
            c.own_edited = True
            # the derived circuit's own constants changed: its relation to its operands is a
            # different one now (e.g. another observation) - stop tracking the old one
            c.rel_ok = False
            for d in self.alive():
                if c.name in d.srcs:
                    pass  # relations of circuits derived from c are re-evaluated against c as it is
        return {"status": "ok", "mutated": list(c.bases), "recheck": True}

    def op_dtype_prelude(self, op: dict[str, Any]) -> dict[str, Any]:
        """What the process did before: a small circuit compiled in a throw-away context under the
        *other* default dtype (a program that switches ``torch.set_default_dtype`` between two
        models).  Nothing of it may leak into later compilations."""
        from cirkit.pipeline import PipelineContext

        cur = torch.get_default_dtype()
        other = torch.float32 if cur == torch.float64 else torch.float64
        torch.set_default_dtype(other)
        try:
            sc = recipes.build({"kind": "rg", "rg": {"algo": "ff", "n": 2, "reps": 1},
                                "input": {"type": "categorical", "k": 2, "param": "softmax"},
                                "sp": "cp", "sum": {"act": "softmax", "init": "normal"},
                                "nary": "same", "ni": 1, "ns": 1, "nc": 1})
            ctx2 = PipelineContext(backend="torch", semiring=self.semiring, fold=self.fold,
                                   optimize=self.optimize)
            seed_rng(op["seed"])
            cc = ctx2.compile(sc)
            oracles.evaluate(cc, np.zeros((1, 2), dtype=np.int64))
        except Exception as e:
            self.tr.count(f"dtype-prelude:failed:{type(e).__name__}")
        finally:
            torch.set_default_dtype(cur)
        return {"status": "ok"}

    def op_query(self, op: dict[str, Any]) -> dict[str, Any]:
        """A read-only marginal query on a compiled circuit (``IntegrateQuery``): nothing it does
        may change what the circuit computes, stores or lists in its state dictionary."""
        from cirkit.backend.torch.queries import IntegrateQuery
        from cirkit.utils.scope import Scope

        c = self.get(op["target"])
        if c is None or len(c.cc.scope) == 0:
            return {"status": "noop"}
        rng = random.Random(op["seed"])
        X = recipes.probe_inputs(rng, c.domain, c.num_vars, 2)
        vs = [v for v in sorted(c.cc.scope) if rng.random() < 0.6] or [sorted(c.cc.scope)[0]]
        try:
            with torch.no_grad():
                IntegrateQuery(c.cc)(torch.from_numpy(X), integrate_vars=Scope(vs))
        except Exception as e:
            self.tr.count(f"query:refused:{type(e).__name__}")
            return {"status": "refused", "recheck": True}
        return {"status": "ok", "recheck": True}

    def op_recompile(self, op: dict[str, Any]) -> dict[str, Any]:
        c = self.get(op["target"])
        if c is None:
            return {"status": "noop"}
        cc = self._guard(f"compiling the already compiled {c.name} again", lambda: self.ctx.compile(c.sc))
        if cc is not c.cc:
            # memoisation is C18's subject (R1 there); here the previously compiled object
            # stays the tracked one and must keep all its invariants
            self.tr.count("recompile:different-object")
            return {"status": "different-object", "mutated": list(c.bases)}
        return {"status": "ok"}

    def op_eval(self, op: dict[str, Any]) -> dict[str, Any]:
        c = self.get(op["target"])
        if c is None:
            return {"status": "noop"}
        if len(c.cc.scope) == 0:
            return {"status": "ok", "evaluated": [c]}
        rng = random.Random(op["seed"])
        X = recipes.probe_inputs(rng, c.domain, c.num_vars, int(op.get("batch", 2)))
        # A new batch (other size, other rows) is a new *input*, not only a later point of the
        # history: a failure that a fault-free recompilation from the current values shows on
        # the same batch as well is a function of (circuit, batch) - e.g. polynomial evidence
        # under folding only evaluates when the batch size equals the number of folds - and
        # belongs to C02/C06, not to C10.  I4 is raised when only the long-lived circuit fails.
        try:
            a = oracles.evaluate(c.cc, X)
        except Exception as e:
            if self._reference_evaluates(c, X):
                raise Violation("I4", f"{c.name} evaluated at birth but now raises {type(e).__name__}: {str(e)[:120]} (a recompilation from the current values evaluates) on a batch of {X.shape[0]}")
            self.tr.count(f"eval:input-excluded:{type(e).__name__}")
            return {"status": "input-excluded"}
        try:
            b = oracles.evaluate(self._reference(c), X)
        except (HarnessError, Violation):
            raise
        except Exception as e:
            self.tr.count(f"eval:reference-failed:{type(e).__name__}")
            return {"status": "reference-failed"}
        self._cmp("I2", c, a, b, f"eval batch={X.shape[0]}")
        # each row depends only on its own input row: compare with row-by-row evaluation
        return {"status": "ok", "evaluated": [c]}

    def op_restart(self, op: dict[str, Any]) -> dict[str, Any]:
        """Drop everything in memory; only the byte store and the model survive."""
        mode = op.get("mode", "same")
        HASH_SEAM.reseed(op["hash_seed"])
        old = [(n, self.circs[n]) for n in self.order if self.circs[n].alive]
        self.incarnation += 1
        self._new_context()
        rebuilt: dict[str, Circ] = {}
        status = "ok"
        for n, oc in old:
            c = Circ(n, oc.kind)
            c.recipe, c.spec, c.bases, c.srcs = oc.recipe, oc.spec, oc.bases, oc.srcs
            c.domain, c.num_vars, c.opt_spec, c.digest = oc.domain, oc.num_vars, oc.opt_spec, oc.digest
            c.rel_ok = oc.rel_ok
            c.rederive_ok, c.own_edited = oc.rederive_ok, False
            use_rebuild = mode == "rebuild"
            try:
                if oc.kind == "base":
                    if use_rebuild:
                        sc = recipes.build(oc.recipe)  # type: ignore[arg-type]
                        if recipes.layer_digest(sc) != oc.digest:
                            sc = oc.sc
                            self.tr.count("restart:rebuild-fallback")
                        c.sc = sc
                    else:
                        c.sc = oc.sc
                else:
                    if use_rebuild and all(s in rebuilt and rebuilt[s].alive for s in oc.srcs):
                        c.sc = self._rederive(oc, rebuilt)
                    else:
                        c.sc = oc.sc
                        if use_rebuild:
                            raise HarnessError("derived circuit whose sources did not survive")
                c.tparams = oracles.symbolic_tensor_parameters(c.sc)
                seed_rng(op["seed"] + len(rebuilt))
                c.cc = self.ctx.compile(c.sc)
                for X in ([None] if len(c.cc.scope) == 0 else self.probes_for(c)):
                    oracles.evaluate(c.cc, X)
                c.alive = True
                c.born = self.tr.step
            except (HarnessError, Violation):
                raise
            except Exception as e:
                raise Violation(
                    "S3",
                    f"{n} compiled before the restart but not after it (mode {mode}): "
                    f"{type(e).__name__}: {str(e)[:160]}",
                )
            rebuilt[n] = c
        for n in self.order:
            if n in rebuilt:
                self.circs[n] = rebuilt[n]
            else:
                self.circs[n].alive = False
        for c in self.alive("base"):
            self.new_version(c)
            self._make_optimizer(c)
        self.tr.count(f"restart:{mode}")
        return {"status": status, "restart": True}

    def _rederive(self, oc: Circ, rebuilt: dict[str, Circ], *, scs: list[Any] | None = None,
                  ctx: Any = None) -> Any:
        import cirkit.symbolic.functional as SF
        from cirkit.utils.scope import Scope

        spec = oc.spec
        assert spec is not None
        if scs is None:
            scs = [rebuilt[s].sc for s in oc.srcs]
        opr = spec["opr"]
        with (self.ctx if ctx is None else ctx):
            pre = spec.get("pre")
            if pre == "multiply":
                scs = [SF.multiply(scs[0], scs[1])]
            elif pre == "conjugate":
                scs = [SF.conjugate(scs[0])]
            elif pre == "concatenate":
                scs = [SF.concatenate(scs)]
            if opr == "integrate":
                return SF.integrate(scs[0], scope=None if spec.get("scope") is None else Scope(spec["scope"]))
            if opr == "multiply":
                return SF.multiply(scs[0], scs[1])
            if opr == "conjugate":
                return SF.conjugate(scs[0])
            if opr == "differentiate":
                return SF.differentiate(scs[0], order=spec.get("order", 1))
            if opr == "evidence":
                return SF.evidence(scs[0], {int(k): v for k, v in spec["obs"].items()})
            if opr == "concatenate":
                return SF.concatenate(scs)
        raise HarnessError(opr)

    # ------------------------------------------------------------------ invariants

    def _cmp(self, inv: str, c: Circ, a: torch.Tensor, b: torch.Tensor, where: str) -> str:
        verdict, d = compare_outputs(a, b, self.semiring, rel=self.tol_rel, logabs=self.tol_log)
        self.tr.count(f"cmp:{inv}")
        if verdict == "undefined":
            self.tr.count("cmp:undefined")
            return verdict
        if verdict != "ok":
            raise Violation(
                inv,
                f"{c.name} ({self._describe(c)}) differs from its reference [{verdict}, |d|={d:.3e}] {where}",
                circ=c.name,
            )
        if d == 0.0:
            self.tr.count("cmp:exact")
        return verdict

    def _describe(self, c: Circ) -> str:
        if c.kind == "base":
            return "base"
        s = c.spec or {}
        return f"{s.get('opr')}({','.join(s.get('src', []))})"

    def check_fresh(self, circs: list[Circ], where: str) -> None:
        """I2 (+ I4): every circuit equals the same-flags compilation of its dereferenced clone."""
        if "I2" not in self.checks:
            return
        for c in circs:
            try:
                outs = self.eval_all(c)
            except Exception as e:
                # same probe batches as at birth: only the history differs.  Still differential
                # (a recompilation from the current values must evaluate them), so that a
                # value-dependent failure of a layer is not reported as a sharing defect.
                if all(self._reference_evaluates(c, X) for X in self.probes_for(c)):
                    raise Violation(
                        "I4",
                        f"{c.name} ({self._describe(c)}) evaluated at birth but raises "
                        f"{type(e).__name__}: {str(e)[:120]} {where}",
                    )
                self.tr.count(f"fresh:value-excluded:{type(e).__name__}")
                continue
            try:
                ref = self._reference(c)
                refs = [oracles.evaluate(ref, X) for X in self.probes_for(c)]
            except (HarnessError, Violation):
                raise
            except Exception as e:
                # the reference model itself cannot be built for the current values: no verdict
                self.tr.count(f"fresh:reference-failed:{type(e).__name__}")
                continue
            for a, b in zip(outs, refs):
                self._cmp("I2", c, a, b, where)
            if "plain" in self.checks and c.kind == "derived":
                try:
                    pref = self._reference(c, plain=True)
                    for X, a in zip(self.probes_for(c), outs):
                        v, _ = compare_outputs(a, oracles.evaluate(pref, X), self.semiring)
                        self.tr.count("plain:agree" if v in ("ok", "undefined") else "plain:flag-dependent")
                except (HarnessError, Violation):
                    raise
                except Exception:
                    self.tr.count("plain:error")

    def check_learnables(self, circs: list[Circ]) -> None:
        """I1: no new learnables, same storage."""
        if "I1" not in self.checks:
            return
        for c in circs:
            if c.kind != "derived":
                continue
            owned = {}
            for b in c.bases:
                for p in self.circs[b].cc.parameters():
                    owned[id(p)] = p
            for n, p in c.cc.named_parameters():
                if not p.requires_grad:
                    continue
                self.tr.count("cmp:I1")
                q = owned.get(id(p))
                if q is None:
                    raise Violation(
                        "I1",
                        f"derived {c.name} ({self._describe(c)}) has a learnable tensor '{n}' "
                        f"{tuple(p.shape)} that is not a tensor of its operands",
                    )
                if q.data_ptr() != p.data_ptr():
                    raise Violation("I1", f"{c.name}: tensor '{n}' does not share storage")
            # every tensor the symbolic circuit references must be read through the registry's
            # current entry (a copy or a stale tensor would pass the check above)
            mods = {id(m) for m in c.cc.modules()}  # once per circuit: modules() is a deep walk
            for sp in oracles.referenced_tensor_parameters(c.sc):
                tp, _ = oracles.registry_entry(self.ctx, sp)
                if id(tp) not in mods:
                    raise Violation(
                        "I1",
                        f"derived {c.name} does not contain the compiled tensor the registry "
                        f"designates for a referenced parameter of shape {sp.shape}",
                    )

    # ---- I3: defining relations ------------------------------------------------

    def _lin(self, t: torch.Tensor) -> torch.Tensor:
        t = t.detach()
        if self.semiring == "sum-product":
            return t.to(torch.complex128)
        return torch.exp(t.to(torch.complex128))

    # Tolerances of I3 (all *relative* to the magnitude of the operand's own terms; an
    # absolute floor would make the relation hold vacuously on tiny outputs, e.g. products of
    # Gaussian densities around 1e-26, and "held at birth" would then mean nothing):
    REL_BIRTH = 1e-9   # the relation is tracked only if it holds this tightly at birth ...
    REL_LATER = 1e-5   # ... and is violated only if it is off by more than this afterwards
    REL_REF = 1e-6     # ... while a recompilation from the current values satisfies it this well
    TINY = 1e-200      # magnitudes below this are "zero": not a meaningful relative comparison

    def _relation_holds(self, c: Circ, *, rel: float, cc: Any = None,
                        nontrivial: bool = False) -> bool | None:
        """True/False: relation evaluated and (not) satisfied; None: not evaluable."""
        try:
            self._rel_tol = rel
            self._rel_nontrivial = nontrivial
            return self._relation(c, c.cc if cc is None else cc)
        except (HarnessError, Violation):
            raise
        except Exception:
            return None

    _rel_tol = 1e-6
    _rel_nontrivial = False

    def _close(self, a: torch.Tensor, b: torch.Tensor, scale: torch.Tensor | float) -> bool | None:
        if a.shape != b.shape:
            return False
        fa = torch.isfinite(torch.view_as_real(a)).all()
        fb = torch.isfinite(torch.view_as_real(b)).all()
        if not (fa and fb):
            return None
        sc = scale if isinstance(scale, torch.Tensor) else torch.tensor(float(scale))
        if self._rel_nontrivial and not bool((sc > self.TINY).all()):
            return None  # birth: a vacuous comparison does not establish the relation
        tol = self._rel_tol * sc + self.TINY
        return bool(((a - b).abs() <= tol).all())

    def _relation(self, c: Circ, dcc: Any) -> bool | None:
        spec = c.spec
        if spec is None or spec.get("pre") is not None:
            return None  # composite derivations have no single-operator relation (I1 / I2 apply)
        opr = spec["opr"]
        srcs = [self.get(s) for s in c.srcs]
        if any(s is None for s in srcs):
            return None
        s0 = srcs[0]
        assert s0 is not None
        Xs = self.probes_for(s0)
        if opr == "integrate":
            if s0.domain[0] != "discrete":
                return None
            k = s0.domain[1]
            scope = sorted(s0.cc.scope) if spec.get("scope") is None else sorted(spec["scope"])
            if k ** len(scope) > MAX_BRUTE:
                return None
            X = Xs[0]
            if X is None:
                return None
            zs = oracles.all_states(len(scope), k)
            rows = []
            for r in range(X.shape[0]):
                R = np.repeat(X[r : r + 1], zs.shape[0], axis=0)
                R[:, scope] = zs
                rows.append(R)
            big = np.concatenate(rows, axis=0)
            y = self._lin(oracles.evaluate(s0.cc, big))  # (B*Z, O, K)
            y = y.reshape(X.shape[0], zs.shape[0], *y.shape[1:])
            tot = y.sum(dim=1)
            scale = y.abs().sum(dim=1)
            if len(dcc.scope) == 0:
                d = self._lin(oracles.evaluate(dcc, None))  # (O, K)
                d = d.unsqueeze(0).expand_as(tot)
            else:
                d = self._lin(oracles.evaluate(dcc, X))
            return self._close(d, tot, scale)
        X = Xs[0]
        if opr == "multiply":
            s1 = srcs[1]
            assert s1 is not None
            if X is None:
                return None
            a = self._lin(oracles.evaluate(s0.cc, X))
            b = self._lin(oracles.evaluate(s1.cc, X))
            B, O1, K1 = a.shape
            _, O2, K2 = b.shape
            prod = (a[:, :, None, :, None] * b[:, None, :, None, :]).reshape(B, O1 * O2, K1 * K2)
            d = self._lin(oracles.evaluate(dcc, X))
            return self._close(d, prod, prod.abs())
        if opr == "conjugate":
            a = self._lin(oracles.evaluate(s0.cc, X))
            d = self._lin(oracles.evaluate(dcc, X))
            return self._close(d, a.conj().resolve_conj(), a.abs())
        if opr == "evidence":
            if X is None:
                return None
            obs = {int(k): v for k, v in spec["obs"].items()}
            R = X.copy()
            for v, val in obs.items():
                R[:, v] = val
            a = self._lin(oracles.evaluate(s0.cc, R))
            if len(dcc.scope) == 0:
                d = self._lin(oracles.evaluate(dcc, None)).unsqueeze(0).expand_as(a)
            else:
                d = self._lin(oracles.evaluate(dcc, X))
            return self._close(d, a, a.abs())
        if opr == "concatenate":
            outs = [self._lin(oracles.evaluate(s.cc, X)) for s in srcs]  # type: ignore[union-attr]
            a = torch.cat(outs, dim=0 if X is None else 1)
            d = self._lin(oracles.evaluate(dcc, X))
            return self._close(d, a, a.abs())
        return None

    def check_relations(self, circs: list[Circ]) -> None:
        if "I3" not in self.checks:
            return
        for c in circs:
            if c.kind != "derived" or not c.rel_ok:
                continue
            r = self._relation_holds(c, rel=self.REL_LATER)
            if r is None:
                self.tr.count("rel:undefined")
                continue
            self.tr.count("cmp:I3")
            if r is False:
                # C10 is about *sharing*: "still satisfies its defining relation without
                # recompilation".  If a recompilation of the derived circuit from the current
                # parameter values does not satisfy the relation either, the operator itself
                # is wrong for these values (C03-C07, not claimed): stop tracking, no alarm.
                try:
                    rr = self._relation_holds(c, rel=self.REL_REF, cc=self._reference(c))
                except (HarnessError, Violation):
                    raise
                except Exception:
                    rr = None
                if rr is not True:
                    self.tr.count("rel:operator-not-sharing")
                    self.tr.ev("rel-untracked", c.name, self._describe(c), rr)
                    c.rel_ok = False
                    continue
                raise Violation(
                    "I3",
                    f"{c.name} ({self._describe(c)}) satisfied its defining relation at birth "
                    f"(step {c.born}) but not after the updates",
                )

    # ---- R3: version memo ---------------------------------------------------------

    def check_memo(self, circs: list[Circ]) -> None:
        if "memo" not in self.checks:
            return
        for c in circs:
            key = (c.name, self.versions_of(c))
            try:
                outs = self.eval_all(c)
            except Exception as e:
                # differential, as everywhere: a failure that a recompilation from the current
                # values shows as well is a function of the values (e.g. a standard deviation
                # pushed below zero by an update), not of the history
                if all(self._reference_evaluates(c, X) for X in self.probes_for(c)):
                    raise Violation("I4", f"{c.name} raises {type(e).__name__}: {str(e)[:120]} "
                                          f"(a recompilation from the current values evaluates)")
                self.tr.count(f"memo:value-excluded:{type(e).__name__}")
                continue
            prev = self.memo_vals.get(key)
            if prev is None:
                self.memo_vals[key] = [o.clone() for o in outs]
                continue
            for a, b in zip(outs, prev):
                self.tr.count("cmp:memo")
                v, d = compare_outputs(a, b, self.semiring, rel=self.tol_exact, logabs=self.tol_exact)
                if v == "undefined":
                    self.tr.count("cmp:undefined")
                    continue
                if v != "ok":
                    raise Violation(
                        "D1",
                        f"{c.name} ({self._describe(c)}) with parameter versions {key[1]} "
                        f"(incarnation {self.incarnation}) does not reproduce its recorded outputs "
                        f"[{v}, |d|={d:.3e}]",
                    )
                if d == 0.0:
                    self.tr.count("cmp:memo-exact")

    # ---- dispatch -----------------------------------------------------------------

    def after(self, op: dict[str, Any], info: dict[str, Any]) -> None:
        live = self.alive()
        mutating = (bool(info.get("mutated")) or info.get("restart") or "born" in info
                    or "reset" in info or info.get("recheck"))
        if mutating and live:
            # a seeded subset after every mutating step; everything at the end
            k = self.plan["config"].get("check_subset", 3)
            subset = live if len(live) <= k else self.check_rng.sample(live, k)
            if "born" in info and info["born"] not in subset:
                subset.append(info["born"])
            if "loaded" in info or info.get("restart"):
                subset = live  # a load / restart is where durability shows: look at everything
            self.check_learnables(subset)
            self.check_fresh(subset, where=f"after {op['op']} at step {self.tr.step}")
            if info.get("loaded") is not None or op["op"] in ("load_edited", "reset", "restart") \
                    or self.check_rng.random() < 0.3:
                self.check_rederived(subset, where=f"after {op['op']} at step {self.tr.step}")
            self.check_relations(subset)
            self.check_memo(subset)
        for h in self.hooks:
            h(self, op, info)

    def final(self) -> None:
        live = self.alive()
        self.check_learnables(live)
        self.check_fresh(live, where="at the end of the run")
        self.check_rederived(live, where="at the end of the run")
        self.check_relations(live)
        self.check_memo(live)
        for h in self.hooks:
            h(self, {"op": "final"}, {"status": "ok", "final": True})
