"""W-B: the context / registry world for C18 (DESIGN.md section 5.5).

Several PipelineContext objects, a context stack driven through real ``with`` blocks by a
recursive interpreter of a *flat* event list (so that any sub-list is again a valid plan),
compile / operator / lookup calls, exceptional exits, documented refusals and SimFaults
injected at seeded crossings of the compiler seams.  After every step the real objects are
compared with a stack + bimap model.
"""

from __future__ import annotations

import random
from typing import Any

import numpy as np
import torch

from . import oracles, recipes
from .kernel import H, HarnessError, SimFault, Trace, Violation, compare_outputs
from .seams import FAULT_SEAM, seed_rng

Plan = dict[str, Any]


def _seed(rng: random.Random) -> int:
    return rng.randrange(1, 2**31 - 1)


# ---------------------------------------------------------------------------
# generator


def generate(run_seed: int, tier: str) -> Plan:
    rng = random.Random(run_seed)
    nctx = rng.choice([2, 2, 3])
    ctxs = []
    for _ in range(nctx):
        ctxs.append({
            "semiring": rng.choice(["sum-product", "lse-sum", "complex-lse-sum"]),
            "fold": rng.random() < 0.5,
            "optimize": rng.random() < 0.5,
        })
    pool: list[dict[str, Any]] = []
    rg = recipes.gen_rg(rng, max_vars=3)
    kinds = rng.choice([["categorical"], ["embedding"], ["gaussian"], ["polynomial"], ["binomial"]])
    for _ in range(rng.randint(1, 3)):
        r = recipes.gen_rg_circuit(rng, monotonic=True, rg=rg, kinds=kinds, allow_classes=False)
        pool.append(r)
    if rng.random() < 0.6:
        pool.append({"kind": "norule", "units": rng.randint(1, 2)})
    faults = rng.random() < 0.5
    bare_regs = rng.choice([0, 0, 1, 2])
    n = rng.randint(14, 36) if tier == "quick" else rng.randint(20, 70)
    ops: list[dict[str, Any]] = []
    depth = 0
    for _ in range(n):
        r = rng.random()
        if depth == 0 and r < 0.45:
            r = 0.0  # most of the history happens inside blocks
        if r < 0.16:
            if bare_regs and rng.random() < 0.25:
                # a bare OperatorRegistry block (a public context manager of its own)
                ops.append({"op": "enter_reg", "reg": rng.randrange(bare_regs)})
            else:
                ops.append({"op": "enter", "ctx": rng.randrange(nctx)})
            depth += 1
        elif r < 0.28:
            ops.append({"op": "exit", "how": rng.choice(["normal", "normal", "exc"])})
            depth = max(0, depth - 1)
        elif r < 0.50:
            op: dict[str, Any] = {"op": "compile", "sc": rng.randrange(64),
                                  "via": rng.choice(["module", "ctx", "ctx"]),
                                  "ctx": rng.randrange(nctx), "seed": _seed(rng)}
            if faults and rng.random() < 0.45:
                op["fault"] = {"at": rng.randrange(0, 50),
                               "when": rng.choice(["before", "before", "after"])}
            ops.append(op)
        elif r < 0.66:
            opr = rng.choice(["integrate", "integrate", "multiply", "conjugate", "differentiate",
                              "concatenate"])
            ops.append({"op": "operator", "opr": opr,
                        "h": [rng.randrange(64) for _ in range(3)],
                        "via": rng.choice(["module", "ctx"]), "ctx": rng.randrange(nctx),
                        "scope_bits": rng.randrange(1, 8), "order": rng.choice([1, 1, 2, 0]),
                        "seed": _seed(rng)})
        elif r < 0.80:
            opr = rng.choice(["integrate", "multiply", "conjugate", "evidence", "concatenate",
                              "differentiate"])
            ops.append({"op": "sym_operator", "opr": opr,
                        "sc": [rng.randrange(64) for _ in range(2)],
                        "scope_bits": rng.randrange(1, 8), "val": rng.randrange(2)})
        elif r < 0.90:
            ops.append({"op": "lookup", "h": rng.randrange(64), "sc": rng.randrange(64)})
        else:
            ops.append({"op": "recompile", "h": rng.randrange(64)})
    return {
        "prop": "C18", "run_seed": run_seed, "tier": tier,
        "hash_seed": H(run_seed, "hash"), "probe_seed": H(run_seed, "probe") % (2**31),
        "config": {"contexts": ctxs, "faults": faults, "bare_regs": bare_regs},
        "pool": pool, "ops": ops,
    }


# ---------------------------------------------------------------------------
# helpers: marker layers, probe circuits, no-rule circuits


class _BlockExit(Exception):
    pass


def _make_marker(i: int) -> tuple[type, Any]:
    from cirkit.symbolic.circuit import CircuitBlock
    from cirkit.symbolic.layers import ConstantValueLayer, InputLayer
    from cirkit.symbolic.parameters import ConstantParameter, Parameter
    from cirkit.utils.scope import Scope

    def config(self: Any) -> dict[str, Any]:
        return {"scope": self.scope, "num_output_units": self.num_output_units}

    cls = type(f"MarkerLayer{i}", (InputLayer,), {"config": property(config)})

    def integrate_marker(sl: Any, *, scope: Any) -> Any:
        v = Parameter.from_input(ConstantParameter(sl.num_output_units, value=float(i + 1)))
        return CircuitBlock.from_layer(ConstantValueLayer(sl.num_output_units, value=v))

    integrate_marker.__annotations__ = {"sl": cls, "scope": Scope, "return": CircuitBlock}
    return cls, integrate_marker


def _binomial_rule() -> Any:
    """An integration rule for BinomialLayer (the default registry has none): a user-defined rule
    every context of this world carries in its *own* registry.  It is a correct rule (a Binomial
    is normalised), so results can still be compared by value."""
    from cirkit.symbolic.circuit import CircuitBlock
    from cirkit.symbolic.layers import BinomialLayer, ConstantValueLayer
    from cirkit.symbolic.parameters import ConstantParameter, Parameter
    from cirkit.utils.scope import Scope

    def integrate_binomial(sl: Any, *, scope: Any) -> Any:
        lp = Parameter.from_input(ConstantParameter(sl.num_output_units, value=0.0))
        return CircuitBlock.from_layer(ConstantValueLayer(sl.num_output_units, log_space=True, value=lp))

    integrate_binomial.__annotations__ = {"sl": BinomialLayer, "scope": Scope, "return": CircuitBlock}
    return integrate_binomial


def _marker_circuit(cls: type) -> Any:
    from cirkit.symbolic.circuit import Circuit
    from cirkit.utils.scope import Scope

    l = cls(Scope([0]), 1)
    return Circuit([l], {}, [l])


def _probe_circuit() -> Any:
    from cirkit.symbolic.circuit import Circuit
    from cirkit.symbolic.layers import CategoricalLayer
    from cirkit.utils.scope import Scope

    l = CategoricalLayer(Scope([0]), 1, num_categories=2)
    return Circuit([l], {}, [l])


def _norule_circuit(units: int) -> Any:
    from cirkit.symbolic.circuit import Circuit
    from cirkit.symbolic.layers import InputLayer, SumLayer
    from cirkit.utils.scope import Scope

    def config(self: Any) -> dict[str, Any]:
        return {"scope": self.scope, "num_output_units": self.num_output_units}

    cls = type("NoRuleLayer", (InputLayer,), {"config": property(config)})
    l = cls(Scope([0]), units)
    s = SumLayer(units, 1)
    return Circuit([l, s], {s: [l]}, [s])


_DEFAULTS: dict[str, Any] = {}


def _restore_defaults() -> None:
    """The process defaults of the two context variables, captured the first time a run starts
    in this process; a run that finds something else active (left behind by a previous,
    violating run during minimisation) puts the defaults back before it starts."""
    import cirkit.pipeline as P
    import cirkit.symbolic.registry as R

    pv = getattr(P, "_PIPELINE_CONTEXT", None)
    rv = getattr(R, "OPERATOR_REGISTRY", None)
    if pv is None or rv is None:
        raise HarnessError("context variables not found")
    if not _DEFAULTS:
        _DEFAULTS["ctx"] = pv.get()
        _DEFAULTS["reg"] = rv.get()
        return
    if pv.get() is not _DEFAULTS["ctx"]:
        pv.set(_DEFAULTS["ctx"])
    if rv.get() is not _DEFAULTS["reg"]:
        rv.set(_DEFAULTS["reg"])


def _closure(sc: Any) -> list[Any]:
    """sc and (transitively) the operands it was derived from, operands first."""
    out: list[Any] = []
    seen: set[int] = set()

    def visit(c: Any) -> None:
        if id(c) in seen:
            return
        seen.add(id(c))
        if c.operation is not None:
            for o in c.operation.operands:
                visit(o)
        out.append(c)

    visit(sc)
    return out


MAX_PRODUCT_UNITS = 256


def _too_big(a: Any, b: Any) -> bool:
    """Bound of the workload (DESIGN.md 2.4): the product of two circuits has layers of
    width(a) * width(b) units; products of products of Kronecker circuits were observed to need
    9 GiB and 100 s for one run, which says nothing about the registry."""
    wa = max(l.num_output_units for l in a.layers)
    wb = max(l.num_output_units for l in b.layers)
    return wa * wb > MAX_PRODUCT_UNITS


# ---------------------------------------------------------------------------
# world


class WorldB:
    def __init__(self, plan: Plan, tr: Trace) -> None:
        from cirkit.pipeline import PipelineContext
        from cirkit.symbolic.layers import LayerOperator

        self.plan = plan
        self.tr = tr
        _restore_defaults()
        self._probe_ids = set()
        self.ctx_flags = plan["config"]["contexts"]
        self.ctxs = [
            PipelineContext.from_default_backend()
            if (f["semiring"], f["fold"], f["optimize"]) == ("lse-sum", True, True)
            else PipelineContext(backend="torch", **f)
            for f in self.ctx_flags
        ]
        self.markers: list[Any] = []
        for i, c in enumerate(self.ctxs):
            cls, rule = _make_marker(i)
            c.add_operator_rule(LayerOperator.INTEGRATION, rule)
            c.add_operator_rule(LayerOperator.INTEGRATION, _binomial_rule())
            self.markers.append(_marker_circuit(cls))
        from cirkit.symbolic.registry import OperatorRegistry

        self.bare_regs: list[Any] = []
        for j in range(int(plan["config"].get("bare_regs", 0))):
            reg = OperatorRegistry.from_default_rules()
            cls, rule = _make_marker(len(self.ctxs) + j)
            reg.add_rule(LayerOperator.INTEGRATION, rule)
            self.markers.append(_marker_circuit(cls))
            self.bare_regs.append(reg)
        # the model's stack of open blocks: context index i >= 0, or -(2 + j) for bare registry j
        self.default_ctx = self._current_ctx_direct()
        # pool of symbolic circuits: (name, circuit, meta)
        self.pool: list[tuple[str, Any, dict[str, Any]]] = []
        for k, r in enumerate(plan["pool"]):
            try:
                if r["kind"] == "norule":
                    sc = _norule_circuit(r["units"])
                    meta = {"domain": ("discrete", 2), "nv": 1, "norule": True}
                else:
                    sc = recipes.build(r)
                    meta = {"domain": recipes.recipe_domain(r),
                            "nv": recipes.rg_num_vars(r["rg"]), "norule": False}
                self.pool.append((f"p{k}", sc, meta))
            except Exception as e:
                self.tr.count(f"pool-build-failed:{type(e).__name__}")
        if not self.pool:
            raise HarnessError("empty pool")
        # model
        self.stack: list[int] = []
        self.pairs: dict[int, list[tuple[Any, Any]]] = {i: [] for i in range(len(self.ctxs))}
        self.pairs[-1] = []  # default context (probes only)
        self.reg_count: dict[tuple[int, int], int] = {}
        self.meta_of_sc: dict[int, dict[str, Any]] = {id(sc): m for _, sc, m in self.pool}
        self.compilers = {id(oracles.compiler_of(c)): i for i, c in enumerate(self.ctxs)}
        self.compilers[id(oracles.compiler_of(self.default_ctx))] = -1
        self.pending: list[tuple[int, Any, Any]] = []
        self._probes_keepalive = []
        self.had_nested = False
        self.had_disruption = False
        self.compile_after_disruption = False
        self.kinds: list[str] = []
        FAULT_SEAM.observer = self._observe

    # -------------------------------------------------------------- observation

    def _observe(self, site: str, args: tuple, kwargs: dict | None = None) -> None:
        if site != "AbstractCompiler.register_compiled_circuit":
            return
        comp, sc, cc = args[0], args[1], args[2]
        ci = self.compilers.get(id(comp))
        if ci is None:
            return  # a reference context of the harness
        self.pending.append((ci, sc, cc))

    def _current_ctx_direct(self) -> Any:
        import cirkit.pipeline as P

        var = getattr(P, "_PIPELINE_CONTEXT", None)
        if var is None:
            raise HarnessError("cirkit.pipeline._PIPELINE_CONTEXT not found")
        return var.get()

    def ctx_obj(self, i: int) -> Any:
        return self.default_ctx if i == -1 else self.ctxs[i]

    def top(self) -> int:
        """The active pipeline context: the innermost open *context* block."""
        for e in reversed(self.stack):
            if e >= 0:
                return e
        return -1

    def active_marker(self) -> int | None:
        """Index of the marker whose rule the active operator registry carries."""
        if not self.stack:
            return None
        e = self.stack[-1]
        return e if e >= 0 else len(self.ctxs) + (-e - 2)

    def meta(self, sc: Any) -> dict[str, Any]:
        m = self.meta_of_sc.get(id(sc))
        if m is None:
            ops = sc.operation.operands if sc.operation is not None else ()
            m = dict(self.meta(ops[0])) if ops else {"domain": ("discrete", 2), "nv": 1, "norule": False}
            m["norule"] = any(self.meta(o).get("norule") for o in ops)
            # probe inputs must lie in the domain of every operand (e.g. concatenate / multiply
            # of categoricals with 3 and 2 categories: only states {0, 1} are valid for both)
            doms = [self.meta(o)["domain"] for o in ops]
            if doms and all(d[0] == "discrete" for d in doms):
                m["domain"] = ("discrete", min(d[1] for d in doms))
            if ops:
                m["nv"] = max(self.meta(o)["nv"] for o in ops)
            self.meta_of_sc[id(sc)] = m
        return m

    # -------------------------------------------------------------- model updates

    def _commit_pending(self, expect_ctx: int | None, target: Any | None, *, failed: bool) -> list[tuple[int, Any, Any]]:
        """Move observed registrations into the model, checking once-only, context, order and
        closure under operands."""
        new = self.pending
        self.pending = []
        for ci, sc, cc in new:
            if expect_ctx is not None and ci != expect_ctx:
                raise Violation("R2", f"a circuit was registered in context {ci} while compiling in context {expect_ctx}")
            key = (ci, id(sc))
            self.reg_count[key] = self.reg_count.get(key, 0) + 1
            if self.reg_count[key] > 1:
                raise Violation("R3", f"a symbolic circuit was compiled {self.reg_count[key]} times in context {ci}")
            # operands first
            if sc.operation is not None:
                for o in sc.operation.operands:
                    if not any(s is o for s, _ in self.pairs[ci]):
                        raise Violation(
                            "R4", f"context {ci}: a circuit derived by {sc.operation.operator.name} "
                            "was registered before its operand")
            self.pairs[ci].append((sc, cc))
        if target is not None and expect_ctx is not None:
            allowed = {id(s) for s in _closure(target)}
            for ci, sc, _ in new:
                if id(sc) not in allowed:
                    raise Violation("R5", "a circuit outside the compiled pipeline was registered")
            if not failed:
                have = {id(s) for s, _ in self.pairs[expect_ctx]}
                for s in _closure(target):
                    if id(s) not in have:
                        raise Violation("R5", "after a successful compile an operand of the pipeline is not registered")
        return new

    # -------------------------------------------------------------- invariants

    def check_active(self, behavioural: bool) -> None:
        import cirkit.pipeline as P
        import cirkit.symbolic.functional as SF
        from cirkit.symbolic.registry import OperatorSignatureNotFound

        exp = self.top()
        cur = self._current_ctx_direct()
        self.tr.count("chk:active")
        if cur is not self.ctx_obj(exp):
            which = "default" if cur is self.default_ctx else next(
                (str(i) for i, c in enumerate(self.ctxs) if c is cur), "unknown")
            raise Violation("A1", f"active pipeline context is {which}, model says {exp} (stack {self.stack})")
        # operator registry, behaviourally: marker i integrates iff registry i is active
        ok = set()
        for i, mc in enumerate(self.markers):
            try:
                SF.integrate(mc)
                ok.add(i)
            except OperatorSignatureNotFound:
                pass
        am = self.active_marker()
        want = set() if am is None else {am}
        self.tr.count("chk:registry")
        if ok != want:
            raise Violation("A2", f"active operator registry belongs to contexts {sorted(ok)}, model says {sorted(want)} (stack {self.stack})")
        if behavioural:
            probe = _probe_circuit()
            self._probe_ids.add(id(probe))
            self._probes_keepalive.append(probe)
            seed_rng(self.plan["probe_seed"])
            cc = P.compile(probe)
            self._commit_pending(None, None, failed=False)
            knows = [i for i in [-1, *range(len(self.ctxs))] if self.ctx_obj(i).is_compiled(probe)]
            self.tr.count("chk:active-behavioural")
            if knows != [exp]:
                raise Violation("A1", f"module-level compile landed in contexts {knows}, model says {exp}")
            if not self.ctx_obj(exp).has_symbolic(cc):
                raise Violation("B1", "probe compiled but has_symbolic is False")

    def check_bimap(self) -> None:
        all_ctx = [-1, *range(len(self.ctxs))]
        known_cc: list[tuple[int, Any, Any]] = []
        for ci in all_ctx:
            for sc, cc in self.pairs[ci]:
                known_cc.append((ci, sc, cc))
        self.tr.count("chk:bimap")
        for ci, sc, cc in known_cc:
            for cj in all_ctx:
                c = self.ctx_obj(cj)
                has = any(s is sc for s, _ in self.pairs[cj])
                if c.is_compiled(sc) != has:
                    raise Violation("B1", f"context {cj}.is_compiled answers {c.is_compiled(sc)} for a circuit the model {'has' if has else 'does not have'} there")
                hasr = cj == ci
                if c.has_symbolic(cc) != hasr:
                    raise Violation("B2", f"context {cj}.has_symbolic answers {c.has_symbolic(cc)} for a compiled circuit of context {ci}")
            c = self.ctx_obj(ci)
            if c.get_compiled_circuit(sc) is not cc or c[sc] is not cc:
                raise Violation("B3", f"context {ci}: get_compiled_circuit / __getitem__ does not return the registered object")
            if c.get_symbolic_circuit(cc) is not sc:
                raise Violation("B3", f"context {ci}: get_symbolic_circuit does not return the registered symbolic circuit")
        # pool circuits never compiled anywhere answer False everywhere
        for _, sc, _ in self.pool:
            for cj in all_ctx:
                has = any(s is sc for s, _ in self.pairs[cj])
                if self.ctx_obj(cj).is_compiled(sc) != has:
                    raise Violation("B1", f"context {cj}.is_compiled disagrees with the model on a pool circuit")

    def _probe_batch(self, sc: Any, cc: Any) -> np.ndarray | None:
        if len(cc.scope) == 0:
            return None
        m = self.meta(sc)
        rng = random.Random(self.plan["probe_seed"] + m["nv"])
        return recipes.probe_inputs(rng, m["domain"], m["nv"], 2)

    def evaluate_ok(self, ci: int, sc: Any, cc: Any, where: str) -> torch.Tensor | None:
        try:
            return oracles.evaluate(cc, self._probe_batch(sc, cc))
        except Exception as e:
            if where == "after-fault":
                # F1 is differential: "does not evaluate" is a consequence of the fault only if
                # the same symbolic circuit, compiled with the same flags in a fresh context
                # without any fault, does evaluate on the same input.  Circuits that never
                # evaluate (shape errors of unclaimed operator / folding defects, inputs
                # outside the domain of one operand) are excluded at birth, as in W-A.
                ref = self._fresh_evaluates(ci, sc)
                if ref is None:
                    raise Violation("F1", f"a circuit reported compiled after an injected fault does not evaluate (a fault-free compilation in a fresh context does): {type(e).__name__}: {str(e)[:100]}")
                self.tr.count(f"birth-excluded:after-fault:{type(e).__name__}")
                self.tr.ev("birth-excluded", type(e).__name__, ref)
                return None
            self.tr.count(f"eval-failed:{type(e).__name__}")
            return None

    def _fresh_evaluates(self, ci: int, sc: Any) -> str | None:
        """None if ``sc`` compiles and evaluates in a fresh fault-free context with the flags of
        context ``ci``; otherwise the class name of what it raises."""
        from cirkit.pipeline import PipelineContext

        saved = (FAULT_SEAM.armed, FAULT_SEAM.observer)
        FAULT_SEAM.armed = False
        FAULT_SEAM.observer = None
        try:
            c = PipelineContext(backend="torch", **self.ctx_flags[ci])
            seed_rng(self.plan["probe_seed"])
            rcc = c.compile(sc)
            oracles.evaluate(rcc, self._probe_batch(sc, rcc))
            return None
        except Exception as e:
            return type(e).__name__
        finally:
            FAULT_SEAM.armed, FAULT_SEAM.observer = saved

    # -------------------------------------------------------------- interpreter

    def run(self) -> None:
        self.ops = self.plan["ops"]
        self.tr.step = 0
        self.check_active(True)
        pos = self.run_block(0, depth=0)
        if pos < len(self.ops):
            raise HarnessError("interpreter stopped early")
        self.tr.step = len(self.ops)
        self.check_active(True)
        self.check_bimap()

    def run_block(self, pos: int, depth: int) -> int:
        ops = self.ops
        while pos < len(ops):
            op = ops[pos]
            self.tr.step = pos
            kind = op["op"]
            self.tr.count(f"op:{kind}")
            if kind == "enter":
                i = op["ctx"] % len(self.ctxs)
                if i in self.stack:
                    # re-entering an active context object is not claimed: recorded no-op
                    self.tr.ev("enter", i, "noop")
                    self.tr.count("enter:noop-reentrant")
                    pos += 1
                    continue
                self.kinds.append(f"enter{len(self.stack)}")
                propagated = False
                how = "normal"
                body_done = False
                try:
                    with self.ctxs[i] as entered:
                        if entered is not self.ctxs[i]:
                            raise Violation("A3", "__enter__ did not return the context")
                        self.stack.append(i)
                        if len(self.stack) >= 2:
                            self.had_nested = True
                        self.tr.ev("enter", i, "ok", list(self.stack))
                        self.check_active(True)
                        pos = self.run_block(pos + 1, depth + 1)
                        how = self._last_exit
                        self.tr.step = pos - 1
                        body_done = True
                        if how == "exc":
                            raise _BlockExit()
                except _BlockExit:
                    propagated = True
                except (Violation, HarnessError):
                    raise
                except Exception as e:
                    if not body_done:
                        raise  # not from __exit__: a bug of the harness, reported as such
                    raise Violation(
                        "A5", f"leaving the block of context {i} ({how} exit) raised "
                              f"{type(e).__name__}: {str(e)[:100]} (stack {self.stack})")
                self.stack.pop()
                if how == "exc":
                    self.had_disruption = True
                    self.tr.count("exit:exc")
                    if not propagated:
                        raise Violation("A4", "an exception raised inside the with-block was swallowed by __exit__")
                else:
                    self.tr.count("exit:normal")
                self.kinds.append("exit-" + how)
                self.tr.ev("exit", i, how, list(self.stack))
                self.check_active(True)
                self.check_bimap()
                continue
            if kind == "enter_reg":
                j = op["reg"] % max(1, len(self.bare_regs)) if self.bare_regs else -1
                code = -(2 + j)
                if j < 0 or code in self.stack:
                    self.tr.ev("enter_reg", j, "noop")
                    self.tr.count("enter:noop-reentrant")
                    pos += 1
                    continue
                self.kinds.append(f"enter-reg{len(self.stack)}")
                propagated = False
                how = "normal"
                body_done = False
                try:
                    with self.bare_regs[j] as entered:
                        if entered is not self.bare_regs[j]:
                            raise Violation("A3", "OperatorRegistry.__enter__ did not return the registry")
                        self.stack.append(code)
                        if len(self.stack) >= 2:
                            self.had_nested = True
                        self.tr.ev("enter_reg", j, "ok", list(self.stack))
                        self.tr.count("enter:bare-registry")
                        self.check_active(True)
                        pos = self.run_block(pos + 1, depth + 1)
                        how = self._last_exit
                        self.tr.step = pos - 1
                        body_done = True
                        if how == "exc":
                            raise _BlockExit()
                except _BlockExit:
                    propagated = True
                except (Violation, HarnessError):
                    raise
                except Exception as e:
                    if not body_done:
                        raise
                    raise Violation(
                        "A5", f"leaving the block of bare registry {j} ({how} exit) raised "
                              f"{type(e).__name__}: {str(e)[:100]} (stack {self.stack})")
                self.stack.pop()
                if how == "exc":
                    self.had_disruption = True
                    self.tr.count("exit:exc")
                    if not propagated:
                        raise Violation("A4", "an exception raised inside the with-block was swallowed by __exit__")
                else:
                    self.tr.count("exit:normal")
                self.kinds.append("exit-" + how)
                self.tr.ev("exit_reg", j, how, list(self.stack))
                self.check_active(True)
                self.check_bimap()
                continue
            if kind == "exit":
                if depth == 0:
                    self.tr.ev("exit", "noop")
                    pos += 1
                    continue
                self._last_exit = op.get("how", "normal")
                return pos + 1
            fn = getattr(self, "op_" + kind)
            status = fn(op)
            self.kinds.append(f"{kind}:{status}")
            self.tr.ev(kind, status)
            self.tr.count(f"status:{kind}:{status}")
            self.check_active(False)
            if status not in ("noop",):
                self.check_bimap()
            pos += 1
        # end of the list: every open block exits normally
        self._last_exit = "normal"
        return pos

    _last_exit = "normal"

    # -------------------------------------------------------------- operations

    def _pick_sc(self, k: int) -> tuple[str, Any, dict[str, Any]]:
        return self.pool[k % len(self.pool)]

    def _handles(self) -> list[tuple[int, Any, Any]]:
        out = []
        for ci in range(len(self.ctxs)):
            for sc, cc in self.pairs[ci]:
                if id(sc) in self._probe_ids:
                    continue
                out.append((ci, sc, cc))
        return out

    _probe_ids: set[int] = set()
    _probes_keepalive: list[Any] = []

    def op_compile(self, op: dict[str, Any]) -> str:
        import cirkit.pipeline as P

        name, sc, meta = self._pick_sc(op["sc"])
        if op["via"] == "module":
            ci = self.top()
            if ci == -1:
                return "noop"  # never compile workload circuits into the process default context
            call = lambda: P.compile(sc)
        else:
            ci = op["ctx"] % len(self.ctxs)
            call = (lambda: self.ctxs[ci].compile(sc)) if op["seed"] % 2 else (lambda: P.compile(sc, self.ctxs[ci]))
        already = any(s is sc for s, _ in self.pairs[ci])
        fault = op.get("fault")
        status = "ok"
        if fault is not None and not already:
            seed_rng(op["seed"])
            try:
                with FAULT_SEAM.arm(fault["at"], fault.get("when", "before")):
                    call()
                self.tr.count("fault:not-reached")
            except SimFault:
                self.tr.count("fault:fired")
                self.tr.count(f"fault:fired:{FAULT_SEAM.last_fired}")
                self.had_disruption = True
                new = self._commit_pending(ci, sc, failed=True)
                self.check_active(True)
                self.check_bimap()
                for cj, s, cc in new:
                    self.evaluate_ok(cj, s, cc, "after-fault")
                status = "fault"
            except Exception as e:
                self._commit_pending(ci, sc, failed=True)
                self.tr.count(f"refusal:{type(e).__name__}")
                return f"refused:{type(e).__name__}"
        seed_rng(op["seed"] + 1)
        try:
            cc = call()
        except Exception as e:
            new = self._commit_pending(ci, sc, failed=True)
            self.tr.count(f"refusal:{type(e).__name__}")
            if meta.get("norule") or self.meta(sc).get("norule"):
                self.had_disruption = True
                return "refused:norule"
            if status == "fault":
                # a later compile of the interrupted circuit must succeed if a fresh one does
                if self._fresh_ok(ci, sc):
                    raise Violation("F2", f"retrying an interrupted compilation fails: {type(e).__name__}: {str(e)[:120]}")
            return f"refused:{type(e).__name__}"
        new = self._commit_pending(ci, sc, failed=False)
        if already and new:
            raise Violation("R3", "compile of an already compiled circuit registered something")
        if self.ctx_obj(ci).get_compiled_circuit(sc) is not cc:
            raise Violation("B3", "compile returned an object different from the registered one")
        # memoisation: compiling again returns the same object
        cc2 = self.ctxs[ci].compile(sc)
        if cc2 is not cc or self.pending:
            raise Violation("R1", "compiling the same symbolic circuit again did not return the same object")
        if self.had_disruption:
            self.compile_after_disruption = True
        for cj, s, c2 in new:
            self.evaluate_ok(cj, s, c2, "after-fault" if status == "fault" else "compile")
        return status if status == "fault" else ("memo" if already else "ok")

    def _fresh_ok(self, ci: int, sc: Any) -> bool:
        from cirkit.pipeline import PipelineContext

        try:
            c = PipelineContext(backend="torch", **self.ctx_flags[ci])
            c.compile(sc)
            return True
        except Exception:
            return False
        finally:
            self.pending = []

    def op_recompile(self, op: dict[str, Any]) -> str:
        hs = self._handles()
        if not hs:
            return "noop"
        ci, sc, cc = hs[op["h"] % len(hs)]
        cc2 = self.ctxs[ci].compile(sc)
        if cc2 is not cc or self.pending:
            raise Violation("R1", "compiling the same symbolic circuit again did not return the same object")
        return "ok"

    def op_lookup(self, op: dict[str, Any]) -> str:
        hs = self._handles()
        name, sc, _ = self._pick_sc(op["sc"])
        for cj in range(len(self.ctxs)):
            has = any(s is sc for s, _ in self.pairs[cj])
            c = self.ctxs[cj]
            if c.is_compiled(sc) != has:
                raise Violation("B1", f"context {cj}.is_compiled disagrees with the model")
            if not has:
                try:
                    c.get_compiled_circuit(sc)
                    raise Violation("B3", "get_compiled_circuit returned something for an unknown circuit")
                except KeyError:
                    pass
                # the subscript form is a lookup as well: it must answer like the method and, above
                # all, must not compile (i.e. change the association it is asked about)
                before = len(self.pending)
                try:
                    got = c[sc]
                except Exception:
                    got = None
                new = self._commit_pending(None, None, failed=True)
                if got is not None or new or len(self.pending) != before or c.is_compiled(sc):
                    raise Violation(
                        "B4", f"context {cj}: the lookup ctx[sc] of a circuit that is not compiled there "
                              f"returned a circuit / registered {len(new)} circuit(s) instead of failing")
        if hs:
            ci, s, cc = hs[op["h"] % len(hs)]
            for cj in range(len(self.ctxs)):
                if cj != ci:
                    try:
                        self.ctxs[cj].get_symbolic_circuit(cc)
                        raise Violation("B3", "get_symbolic_circuit returned something for a foreign circuit")
                    except KeyError:
                        pass
        return "ok"

    def op_sym_operator(self, op: dict[str, Any]) -> str:
        """Symbolic operator without an explicit registry: uses the active registry."""
        import cirkit.symbolic.functional as SF
        from cirkit.utils.scope import Scope

        _, a, ma = self._pick_sc(op["sc"][0])
        _, b, _ = self._pick_sc(op["sc"][1])
        opr = op["opr"]
        try:
            if opr == "integrate":
                vs = [v for k, v in enumerate(sorted(a.scope)) if (op["scope_bits"] >> k) & 1]
                res = SF.integrate(a, scope=Scope(vs) if vs else None)
            elif opr == "multiply":
                if _too_big(a, b):
                    self.tr.count("bound:multiply-too-big")
                    return "noop"
                res = SF.multiply(a, b)
            elif opr == "conjugate":
                res = SF.conjugate(a)
            elif opr == "evidence":
                vs = [v for k, v in enumerate(sorted(a.scope)) if (op["scope_bits"] >> k) & 1]
                dom = self.meta(a)["domain"]
                val: Any = op["val"] if dom[0] == "discrete" else 0.25
                res = SF.evidence(a, {v: val for v in vs})
            elif opr == "differentiate":
                res = SF.differentiate(a, order=1)
            else:
                res = SF.concatenate([a, b])
        except Exception as e:
            self.tr.count(f"refusal:{type(e).__name__}")
            return f"refused:{type(e).__name__}"
        if len(self.pool) < 24:
            self.pool.append((f"s{len(self.pool)}", res, self.meta(res)))
        return "ok"

    def _judge_refusal(self, op: dict[str, Any], opr: str, ci: int, args: list[Any],
                       kwargs: dict[str, Any], exc: BaseException) -> None:
        """An operator function refused compiled circuits of its own context.  Differential: "the
        operator functions applied to compiled circuits return the compilation of the
        corresponding symbolic operator result" - so if the symbolic operator, applied under that
        context's registry, succeeds and its result compiles there, the refusal is a violation
        (O5); if that route fails as well, the refusal is a function of the arguments."""
        import cirkit.symbolic.functional as SF

        if ci in self.stack and self.stack[-1] != ci:
            return  # the context's registry can only be made active by re-entering it
        ctx = self.ctxs[ci]

        def direct() -> Any:
            if opr == "integrate":
                return SF.integrate(args[0][1], scope=kwargs["scope"])
            if opr == "multiply":
                return SF.multiply(args[0][1], args[1][1])
            if opr == "conjugate":
                return SF.conjugate(args[0][1])
            if opr == "differentiate":
                return SF.differentiate(args[0][1], order=op["order"])
            return SF.concatenate([args[0][1], args[1][1]])

        try:
            if self.stack and self.stack[-1] == ci:
                dsc = direct()
            else:
                with ctx:
                    dsc = direct()
            seed_rng(op["seed"] + 2)
            ctx.compile(dsc)
        except Exception:
            self._commit_pending(ci, None, failed=True)
            self.tr.count("refusal:confirmed-by-symbolic-route")
            return
        self._commit_pending(ci, dsc, failed=False)
        self.meta(dsc)
        raise Violation(
            "O5",
            f"{opr} through context {ci} refused its own compiled circuit ({type(exc).__name__}: "
            f"{str(exc)[:100]}) although the symbolic operator under that context's registry "
            f"succeeds and its result compiles there (stack {self.stack})",
        )

    def op_operator(self, op: dict[str, Any]) -> str:
        """Operator functions on compiled circuits (module-level or through a context)."""
        import cirkit.pipeline as P
        import cirkit.symbolic.functional as SF
        from cirkit.symbolic.circuit import CircuitOperator
        from cirkit.utils.scope import Scope

        hs = self._handles()
        if not hs:
            return "noop"
        opr = op["opr"]
        if op["via"] == "module":
            ci = self.top()
            if ci == -1:
                return "noop"
            ctx_arg = None
        else:
            ci = op["ctx"] % len(self.ctxs)
            ctx_arg = self.ctxs[ci]
        nargs = {"integrate": 1, "conjugate": 1, "differentiate": 1, "multiply": 2, "concatenate": 2}[opr]
        args = [hs[h % len(hs)] for h in op["h"][:nargs]]
        ccs = [a[2] for a in args]
        foreign = any(a[0] != ci for a in args)
        kwargs: dict[str, Any] = {}
        exp_meta: dict[str, Any] = {}
        if opr == "integrate":
            vs = [v for k, v in enumerate(sorted(args[0][1].scope)) if (op["scope_bits"] >> k) & 1]
            scope = Scope(vs) if vs else None
            kwargs["scope"] = scope
            exp_meta["scope"] = Scope(args[0][1].scope) if scope is None else scope
        if opr == "differentiate":
            kwargs["order"] = op["order"]
            exp_meta["order"] = op["order"]
        if opr == "multiply" and _too_big(args[0][1], args[1][1]):
            self.tr.count("bound:multiply-too-big")
            return "noop"
        fn = getattr(P, opr)
        before = {cj: len(self.pairs[cj]) for cj in self.pairs}
        seed_rng(op["seed"])
        try:
            if ctx_arg is None:
                cc = fn(*ccs, **kwargs)
            else:
                cc = fn(*ccs, ctx=ctx_arg, **kwargs)
        except ValueError as e:
            self._commit_pending(ci, None, failed=True)
            if foreign:
                # must change nothing
                if any(len(self.pairs[cj]) != before[cj] for cj in self.pairs):
                    raise Violation("O1", "a refused operator call on a foreign circuit registered something")
                self.tr.count("refusal:foreign")
                return "refused:foreign"
            self.tr.count("refusal:ValueError")
            self._judge_refusal(op, opr, ci, args, kwargs, e)
            return "refused:ValueError"
        except Exception as e:
            self._commit_pending(ci, None, failed=True)
            if foreign:
                # the docstrings promise ValueError; C18 only needs the call to be refused and
                # to leave every registry as it was - the exception class is recorded, not judged
                if any(len(self.pairs[cj]) != before[cj] for cj in self.pairs):
                    raise Violation("O1", "a refused operator call on a foreign circuit registered something")
                self.tr.count(f"refusal:foreign:{type(e).__name__}")
                return "refused:foreign"
            self.tr.count(f"refusal:{type(e).__name__}")
            self._judge_refusal(op, opr, ci, args, kwargs, e)
            return f"refused:{type(e).__name__}"
        if foreign:
            raise Violation("O1", f"{opr} accepted a compiled circuit that is not known in the pipeline context it was applied in")
        if opr == "differentiate" and op["order"] <= 0:
            self.tr.count("operator:nonpositive-order-accepted")  # C09's subject, not C18's
        new = self._commit_pending(ci, None, failed=False)
        ctx = self.ctxs[ci]
        if not ctx.has_symbolic(cc):
            raise Violation("O3", "operator result is not known to its context")
        rsc = ctx.get_symbolic_circuit(cc)
        expected_op = {"integrate": CircuitOperator.INTEGRATION, "multiply": CircuitOperator.MULTIPLICATION,
                       "conjugate": CircuitOperator.CONJUGATION, "differentiate": CircuitOperator.DIFFERENTIATION,
                       "concatenate": CircuitOperator.CONCATENATE}[opr]
        if rsc.operation is None or rsc.operation.operator != expected_op:
            raise Violation("O3", f"result of {opr} carries operation {rsc.operation}")
        if len(rsc.operation.operands) != len(args) or any(o is not a[1] for o, a in zip(rsc.operation.operands, args)):
            raise Violation("O3", f"operands of the {opr} result are not the symbolic circuits of the compiled operands")
        for k, v in exp_meta.items():
            if rsc.operation.metadata.get(k) != v:
                raise Violation("O3", f"{opr}: metadata {k}={rsc.operation.metadata.get(k)} but {v} was passed")
        self.meta(rsc)
        # value: equals the compilation of the symbolic operator applied directly
        def direct() -> Any:
            if opr == "integrate":
                return SF.integrate(args[0][1], scope=kwargs["scope"])
            if opr == "multiply":
                return SF.multiply(args[0][1], args[1][1])
            if opr == "conjugate":
                return SF.conjugate(args[0][1])
            if opr == "differentiate":
                return SF.differentiate(args[0][1], order=op["order"])
            return SF.concatenate([args[0][1], args[1][1]])

        if ci in self.stack and self.stack[-1] != ci:
            # the context's own registry can only be made active by entering it, and entering
            # an active context object is the re-entrancy the property excludes (a bare registry
            # block opened inside the context's block hides its registry in the same way)
            self.tr.count("operator:value-check-skipped")
            if self.had_disruption:
                self.compile_after_disruption = True
            return "ok"
        try:
            if self.stack and self.stack[-1] == ci:
                dsc = direct()
            else:
                with ctx:
                    dsc = direct()
            seed_rng(op["seed"] + 2)
            dcc = ctx.compile(dsc)
        except Exception as e:
            self._commit_pending(ci, None, failed=True)
            raise Violation("O4", f"{opr} through the pipeline succeeded but the symbolic operator + compile raised {type(e).__name__}: {str(e)[:100]}")
        self._commit_pending(ci, dsc, failed=False)
        self.meta(dsc)
        a = self.evaluate_ok(ci, rsc, cc, "operator")
        b = self.evaluate_ok(ci, dsc, dcc, "operator")
        if (a is None) != (b is None):
            raise Violation("O4", f"{opr}: one of pipeline result / direct compilation evaluates and the other does not")
        if a is not None and b is not None:
            v, d = compare_outputs(a, b, self.ctx_flags[ci]["semiring"])
            self.tr.count("cmp:operator")
            if v not in ("ok", "undefined"):
                raise Violation("O4", f"{opr}: pipeline result differs from the compilation of the symbolic operator result [{v}, {d:.3e}]")
        if self.had_disruption:
            self.compile_after_disruption = True
        return "ok"


def run(plan: Plan, tr: Trace) -> dict[str, Any]:
    w = WorldB(plan, tr)
    try:
        w.run()
    finally:
        FAULT_SEAM.observer = None
    nontrivial = w.had_nested and w.had_disruption and w.compile_after_disruption
    flags = ";".join(f"{c['semiring']}/{int(c['fold'])}{int(c['optimize'])}" for c in w.ctx_flags)
    return {"nontrivial": nontrivial, "shape_key": flags + "|" + ",".join(w.kinds)}
