"""Reference models (DESIGN.md section 4): R1 dereferenced recompilation, R2 brute-force mass."""

from __future__ import annotations

import itertools
from copy import copy
from typing import Any, Callable

import numpy as np
import torch

from .kernel import HarnessError


# ---------------------------------------------------------------------------
# reading theta through the compiler's registry


def compiler_of(ctx: Any) -> Any:
    comp = getattr(ctx, "_compiler", None)
    if comp is None or not hasattr(comp, "state"):
        raise HarnessError("PipelineContext._compiler.state is not reachable")
    return comp


def registry_value(ctx: Any, sp: Any) -> torch.Tensor:
    """The live tensor slice the registry designates for symbolic tensor parameter ``sp``
    (a view: shares storage with the compiled tensor)."""
    state = compiler_of(ctx).state
    tp, fold_idx = state.retrieve_compiled_parameter(sp)
    t = tp()
    return t[fold_idx]


def registry_entry(ctx: Any, sp: Any) -> tuple[Any, int]:
    return compiler_of(ctx).state.retrieve_compiled_parameter(sp)


def symbolic_tensor_parameters(sc: Any) -> list[Any]:
    """All TensorParameter nodes (incl. constants) owned by a symbolic circuit, in layer order,
    evidence sub-layers included."""
    from cirkit.symbolic.layers import EvidenceLayer
    from cirkit.symbolic.parameters import TensorParameter

    out: list[Any] = []

    def visit(layer: Any) -> None:
        for _, p in layer.params.items():
            for n in p.nodes:
                if isinstance(n, TensorParameter):
                    out.append(n)
        if isinstance(layer, EvidenceLayer):
            visit(layer.layer)

    for l in sc.layers:
        visit(l)
    return out


def referenced_tensor_parameters(sc: Any) -> list[Any]:
    from cirkit.symbolic.layers import EvidenceLayer
    from cirkit.symbolic.parameters import ReferenceParameter

    out: list[Any] = []

    def visit(layer: Any) -> None:
        for _, p in layer.params.items():
            for n in p.nodes:
                if isinstance(n, ReferenceParameter):
                    out.append(n.deref())
        if isinstance(layer, EvidenceLayer):
            visit(layer.layer)

    for l in sc.layers:
        visit(l)
    return out


# ---------------------------------------------------------------------------
# R1: dereferenced clone


def deref_clone(sc: Any, theta: Callable[[Any], np.ndarray]) -> Any:
    """A standalone symbolic clone of ``sc``: every TensorParameter and ReferenceParameter is
    replaced by a ConstantParameter holding ``theta(tensor parameter)``."""
    from cirkit.symbolic.circuit import Circuit
    from cirkit.symbolic.layers import EvidenceLayer
    from cirkit.symbolic.parameters import (
        ConstantParameter,
        Parameter,
        ReferenceParameter,
        TensorParameter,
    )
    from cirkit.utils.algorithms import topologically_process_nodes

    def const_of(t: Any) -> Any:
        v = np.array(theta(t))
        if tuple(v.shape) != tuple(t.shape):
            raise HarnessError(f"theta shape {v.shape} != symbolic shape {t.shape}")
        return ConstantParameter(*t.shape, value=v)

    def clone_node(n: Any) -> Any:
        if isinstance(n, ReferenceParameter):
            return const_of(n.deref())
        if isinstance(n, TensorParameter):
            return const_of(n)
        return copy(n)

    def clone_param(p: Any) -> Any:
        nodes, in_nodes, outputs = topologically_process_nodes(
            p.topological_ordering(), p.outputs, clone_node, incomings_fn=p.node_inputs
        )
        return Parameter(nodes, in_nodes, outputs)

    def clone_layer(l: Any) -> Any:
        kwargs: dict[str, Any] = {n: clone_param(p) for n, p in l.params.items()}
        cfg = dict(l.config)
        if isinstance(l, EvidenceLayer):
            cfg["layer"] = clone_layer(l.layer)
        kwargs.update(cfg)
        return type(l)(**kwargs)

    lmap: dict[Any, Any] = {}
    in_layers: dict[Any, list[Any]] = {}
    for l in sc.topological_ordering():
        nl = clone_layer(l)
        lmap[l] = nl
        in_layers[nl] = [lmap[i] for i in sc.layer_inputs(l)]
    layers = [lmap[l] for l in sc.layers]
    outputs = [lmap[l] for l in sc.outputs]
    return Circuit(layers, in_layers, outputs)


def init_submodule_tensors(cc: Any) -> None:
    """TorchCircuit.reset_parameters does not descend into layer sub-modules; a standalone
    clone of an evidence circuit owns tensors there, so the reference side initialises them."""

    def visit(layer: Any) -> None:
        for _, sub in layer.sub_modules.items():
            for p in sub.params.values():
                p.reset_parameters()
            visit(sub)

    for l in cc.layers:
        visit(l)


def compile_reference(sc_clone: Any, *, semiring: str, fold: bool, optimize: bool) -> Any:
    from cirkit.pipeline import PipelineContext

    ctx = PipelineContext(backend="torch", semiring=semiring, fold=fold, optimize=optimize)
    cc = ctx.compile(sc_clone)
    init_submodule_tensors(cc)
    return cc


# ---------------------------------------------------------------------------
# R2: brute-force mass of small discrete circuits


def all_states(num_vars: int, k: int) -> np.ndarray:
    return np.array(list(itertools.product(range(k), repeat=num_vars)), dtype=np.int64).reshape(
        -1, num_vars
    )


def brute_force_log_mass(cc: Any, num_vars: int, k: int, semiring: str) -> torch.Tensor:
    """log of sum_x c(x) for each (output, unit); c evaluated by the compiled circuit itself."""
    X = torch.from_numpy(all_states(num_vars, k))
    with torch.no_grad():
        y = cc(X)  # (B, O, K)
    if semiring == "sum-product":
        s = y.sum(dim=0)
        return torch.log(s)
    if semiring == "lse-sum":
        return torch.logsumexp(y, dim=0)
    raise HarnessError("brute force mass only for real semirings")


# How circuits are evaluated by the harness: under ``torch.no_grad()`` (default), under
# ``torch.inference_mode()`` or with autograd recording.  A world may switch it (operation
# ``mode``); every run resets it.  What a circuit computes must not depend on it.
GRAD_MODE = "no_grad"


def evaluate(cc: Any, X: np.ndarray | None) -> torch.Tensor:
    x = None if X is None else torch.from_numpy(X)
    if x is not None and x.is_floating_point():
        x = x.to(torch.get_default_dtype())  # real-valued inputs in the precision of the model
    if GRAD_MODE == "enabled":
        with torch.enable_grad():
            y = cc() if x is None else cc(x)
        return y.detach()
    if GRAD_MODE == "inference":
        with torch.inference_mode():
            y = cc() if x is None else cc(x)
        return y.clone()
    with torch.no_grad():
        return cc() if x is None else cc(x)
