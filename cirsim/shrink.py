"""Delta-debugging minimiser for plans (DESIGN.md section 2.6).

A candidate is kept only if it fails with the *same invariant id*.  Operations are total,
so any sub-list of the operation list is a valid plan."""

from __future__ import annotations

import copy
import time
from typing import Any, Callable

from .engine import execute


def _fails(plan: dict[str, Any], inv: str, budget: list[int]) -> bool:
    if budget[0] <= 0:
        return False
    budget[0] -= 1
    r = execute(plan)
    return r.violation is not None and r.violation["inv"] == inv


def ddmin_ops(plan: dict[str, Any], inv: str, budget: list[int], deadline: float,
              key: str = "ops") -> dict[str, Any]:
    ops = plan[key]
    n = 2
    while len(ops) >= 2 and budget[0] > 0 and time.monotonic() < deadline:
        chunk = max(1, len(ops) // n)
        reduced = False
        for start in range(0, len(ops), chunk):
            cand_ops = ops[:start] + ops[start + chunk:]
            if not cand_ops:
                continue
            cand = dict(plan)
            cand[key] = cand_ops
            if _fails(cand, inv, budget):
                ops = cand_ops
                plan = cand
                n = max(n - 1, 2)
                reduced = True
                break
            if time.monotonic() > deadline:
                break
        if not reduced:
            if chunk == 1:
                break
            n = min(n * 2, len(ops))
    plan = dict(plan)
    plan[key] = ops
    return plan


def simplify(plan: dict[str, Any], inv: str, budget: list[int], deadline: float,
             extra: Callable[[dict[str, Any]], list[dict[str, Any]]] | None = None) -> dict[str, Any]:
    """Config / argument simplifications, tried one at a time."""

    def candidates(p: dict[str, Any]) -> list[dict[str, Any]]:
        out = []
        cfg = p.get("config", {})
        for k in ("optimize", "fold"):
            if cfg.get(k):
                q = copy.deepcopy(p)
                q["config"][k] = False
                out.append(q)
        for i, op in enumerate(p.get("ops", [])):
            if "fault" in op:
                q = copy.deepcopy(p)
                del q["ops"][i]["fault"]
                out.append(q)
            if op.get("op") == "optim" and op.get("steps", 1) > 1:
                q = copy.deepcopy(p)
                q["ops"][i]["steps"] = 1
                out.append(q)
            r = op.get("recipe")
            if isinstance(r, dict) and r.get("kind") == "rg":
                for fld in ("ni", "ns", "nc"):
                    if r.get(fld, 1) > 1:
                        q = copy.deepcopy(p)
                        q["ops"][i]["recipe"][fld] = 1
                        if fld == "ns" and r.get("sp") in ("cp-t", "tucker"):
                            q["ops"][i]["recipe"]["ni"] = 1
                        out.append(q)
                rg = r.get("rg", {})
                if rg.get("reps", 1) > 1:
                    q = copy.deepcopy(p)
                    q["ops"][i]["recipe"]["rg"]["reps"] = 1
                    out.append(q)
            if isinstance(r, dict) and r.get("kind") == "hand":
                if r.get("sums") is not None:
                    q = copy.deepcopy(p)
                    q["ops"][i]["recipe"]["sums"] = None
                    out.append(q)
                if r.get("nv", 1) > 2:
                    q = copy.deepcopy(p)
                    rr = q["ops"][i]["recipe"]
                    rr["nv"] -= 1
                    rr["inputs"] = rr["inputs"][:-1]
                    if rr.get("sums") is not None:
                        rr["sums"] = rr["sums"][:-1]
                    out.append(q)
                for v, ispec in enumerate(r.get("inputs", [])):
                    if ispec.get("evidence") is not None:
                        q = copy.deepcopy(p)
                        del q["ops"][i]["recipe"]["inputs"][v]["evidence"]
                        out.append(q)
                if r.get("nc", 1) > 1:
                    q = copy.deepcopy(p)
                    q["ops"][i]["recipe"]["nc"] = 1
                    out.append(q)
            if op.get("op") == "sample" and op.get("n", 0) > 1000:
                q = copy.deepcopy(p)
                q["ops"][i]["n"] = 1000
                out.append(q)
            if op.get("op") == "reset_burst" and op.get("count", 0) > 2:
                q = copy.deepcopy(p)
                q["ops"][i]["count"] = 2
                out.append(q)
        r = p.get("recipe")
        if isinstance(r, dict) and r.get("kind") == "rg":  # W-C keeps its recipe at the top
            for fld in ("ni", "ns", "nc"):
                if r.get(fld, 1) > 1:
                    q = copy.deepcopy(p)
                    q["recipe"][fld] = 1
                    if fld == "ns" and r.get("sp") in ("cp-t", "tucker"):
                        q["recipe"]["ni"] = 1
                    out.append(q)
            if r.get("rg", {}).get("reps", 1) > 1:
                q = copy.deepcopy(p)
                q["recipe"]["rg"]["reps"] = 1
                out.append(q)
        if extra is not None:
            out.extend(extra(p))
        return out

    progress = True
    while progress and budget[0] > 0 and time.monotonic() < deadline:
        progress = False
        for cand in candidates(plan):
            if time.monotonic() > deadline or budget[0] <= 0:
                break
            if _fails(cand, inv, budget):
                plan = cand
                progress = True
                break
    return plan


def minimise(plan: dict[str, Any], inv: str, *, max_exec: int = 300, max_s: float = 120.0
             ) -> tuple[dict[str, Any], int]:
    budget = [max_exec]
    deadline = time.monotonic() + max_s
    keys = [k for k in ("ops",) if k in plan]
    for k in keys:
        plan = ddmin_ops(plan, inv, budget, deadline, key=k)
    plan = simplify(plan, inv, budget, deadline)
    for k in keys:
        plan = ddmin_ops(plan, inv, budget, deadline, key=k)
    return plan, max_exec - budget[0]
