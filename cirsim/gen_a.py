"""Plan generators for the W-A properties (C10, C12, C17, C19).

``generate(prop, run_seed, tier)`` is a pure function: every choice is drawn from one
``random.Random(run_seed)``; the plan is plain JSON data."""

from __future__ import annotations

import random
from typing import Any

from . import recipes
from .kernel import H

Plan = dict[str, Any]


def _seed(rng: random.Random) -> int:
    return rng.randrange(1, 2**31 - 1)


class _Model:
    """What the generator knows about the circuits it has asked for (names, scopes, depth)."""

    def __init__(self) -> None:
        self.names: list[str] = []
        self.scope: dict[str, list[int]] = {}
        self.full_scope: dict[str, list[int]] = {}
        self.mdepth: dict[str, int] = {}
        self.depth: dict[str, int] = {}
        self.bases: dict[str, tuple[str, ...]] = {}
        self.nd = 0

    def add(self, name: str, scope: list[int], full: list[int], mdepth: int, depth: int,
            bases: tuple[str, ...]) -> None:
        self.names.append(name)
        self.scope[name] = scope
        self.full_scope[name] = full
        self.mdepth[name] = mdepth
        self.depth[name] = depth
        self.bases[name] = bases


def _gen_derive(rng: random.Random, m: _Model, *, domain: tuple[str, int], poly: bool,
                allow_fault: bool, oprs: list[str] | None = None) -> dict[str, Any] | None:
    cands = [n for n in m.names if m.depth[n] < 3]
    if not cands:
        return None
    if oprs is None:
        oprs = ["integrate", "integrate", "multiply", "multiply", "conjugate", "evidence",
                "concatenate"]
        if poly:
            oprs += ["differentiate", "differentiate"]
    opr = rng.choice(oprs)
    name = f"d{m.nd}"
    via = rng.choice(["symbolic", "symbolic", "pipeline"])
    spec: dict[str, Any]
    if opr == "integrate":
        src = rng.choice([n for n in cands if m.scope[n]] or cands)
        sc = m.scope[src]
        if not sc:
            return None
        if rng.random() < 0.6:
            scope = None
            rem: list[int] = []
        else:
            ksz = rng.randint(1, len(sc))
            scope = sorted(rng.sample(sc, ksz))
            rem = [v for v in sc if v not in scope]
        spec = {"opr": opr, "src": [src], "scope": scope, "via": via}
        m.add(name, rem, m.full_scope[src], m.mdepth[src], m.depth[src] + 1, m.bases[src])
    elif opr == "multiply":
        a = rng.choice(cands)
        same = [n for n in cands if m.scope[n] == m.scope[a] and m.mdepth[n] + m.mdepth[a] <= 1]
        if not same or not m.scope[a]:
            return None
        b = rng.choice(same) if rng.random() < 0.7 else a
        if m.mdepth[a] + m.mdepth[b] > 1:
            return None
        spec = {"opr": opr, "src": [a, b], "via": via}
        bases = tuple(dict.fromkeys(m.bases[a] + m.bases[b]))
        m.add(name, m.scope[a], m.full_scope[a], m.mdepth[a] + m.mdepth[b] + 1,
              max(m.depth[a], m.depth[b]) + 1, bases)
    elif opr == "conjugate":
        src = rng.choice(cands)
        spec = {"opr": opr, "src": [src], "via": via}
        m.add(name, m.scope[src], m.full_scope[src], m.mdepth[src], m.depth[src] + 1, m.bases[src])
    elif opr == "evidence":
        src = rng.choice([n for n in cands if m.scope[n]] or cands)
        sc = m.scope[src]
        if not sc:
            return None
        ksz = rng.randint(1, len(sc))
        vs = sorted(rng.sample(sc, ksz))
        if domain[0] == "discrete":
            obs = {str(v): rng.randrange(domain[1]) for v in vs}
        else:
            obs = {str(v): round(rng.uniform(-1.0, 1.0), 3) for v in vs}
        spec = {"opr": opr, "src": [src], "obs": obs, "via": "symbolic"}
        m.add(name, [v for v in sc if v not in vs], m.full_scope[src], m.mdepth[src],
              m.depth[src] + 1, m.bases[src])
    elif opr == "differentiate":
        src = rng.choice([n for n in cands if m.scope[n] == m.full_scope[n]] or cands)
        spec = {"opr": opr, "src": [src], "order": rng.choice([1, 1, 2]), "via": via}
        m.add(name, m.scope[src], m.full_scope[src], m.mdepth[src], m.depth[src] + 1, m.bases[src])
    elif opr == "concatenate":
        a = rng.choice(cands)
        same = [n for n in cands if m.scope[n] == m.scope[a]]
        k = rng.randint(2, 3)
        srcs = [a] + [rng.choice(same) for _ in range(k - 1)]
        spec = {"opr": opr, "src": srcs, "via": via}
        bases = tuple(dict.fromkeys(sum((m.bases[s] for s in srcs), ())))
        m.add(name, m.scope[a], m.full_scope[a], max(m.mdepth[s] for s in srcs),
              max(m.depth[s] for s in srcs) + 1, bases)
    else:
        return None
    m.nd += 1
    op: dict[str, Any] = {"op": "derive", "name": name, "spec": spec, "seed": _seed(rng)}
    if allow_fault and spec["via"] == "symbolic" and rng.random() < 0.35:
        op["fault"] = {"at": rng.randrange(0, 60), "when": rng.choice(["before", "before", "after"])}
    return op


def _opt_spec(rng: random.Random) -> dict[str, Any]:
    if rng.random() < 0.5:
        return {"kind": "sgd", "lr": rng.choice([0.01, 0.1, 0.5]), "momentum": rng.choice([0.0, 0.9])}
    return {"kind": "adam", "lr": rng.choice([0.01, 0.1, 0.5])}


def _flags(rng: random.Random, monotonic: bool) -> dict[str, Any]:
    if monotonic:
        semiring = rng.choice(["sum-product", "lse-sum", "lse-sum"])
    else:
        semiring = rng.choice(["sum-product", "complex-lse-sum", "complex-lse-sum"])
    return {"semiring": semiring, "fold": rng.random() < 0.6, "optimize": rng.random() < 0.5}


def _perturb_mode(rng: random.Random, recipe: dict[str, Any]) -> str:
    inp = recipe.get("input", {})
    if inp.get("param") == "dirichlet" or recipe.get("positive_raw"):
        return "mulpos"
    return rng.choice(["add", "add", "copy", "mulpos"])


def gen_c10(rng: random.Random, tier: str) -> Plan:
    monotonic = rng.random() < 0.5
    cfg = _flags(rng, monotonic)
    cfg["checks"] = ["I1", "I2", "I3", "I4", "plain"]
    faults = rng.random() < 0.4  # fault-free and fault-injecting runs are separate swarm members
    cfg["faults"] = faults
    cfg["batches"] = [rng.choice([2, 3, 5]), rng.choice([1, 1, 2, 8])]
    cfg["check_subset"] = 3
    poly = (not monotonic) and rng.random() < 0.3
    if poly:
        kinds = ["polynomial"]
    elif monotonic:
        kinds = ["categorical", "categorical", "gaussian", "embedding", "binomial"]
    else:
        kinds = ["embedding", "embedding", "categorical", "gaussian"]
    rg = recipes.gen_rg(rng, max_vars=5)
    nv = recipes.rg_num_vars(rg)
    r0 = recipes.gen_rg_circuit(rng, monotonic=monotonic, rg=rg, kinds=kinds)
    if not monotonic and cfg["semiring"] == "complex-lse-sum" and rng.random() < 0.5:
        recipes.make_complex(r0)
    ops: list[dict[str, Any]] = []
    m = _Model()
    ops.append({"op": "compile_base", "name": "b0", "recipe": r0, "seed": _seed(rng),
                "opt": _opt_spec(rng)})
    m.add("b0", list(range(nv)), list(range(nv)), 0, 0, ("b0",))
    base_recipes = {"b0": r0}
    if rng.random() < 0.45:
        r1 = recipes.gen_rg_circuit(rng, monotonic=monotonic, rg=rg, kinds=[r0["input"]["type"]])
        r1["input"] = dict(r0["input"])  # same input family, so that multiply has a rule
        r1["sp"] = r0["sp"] if rng.random() < 0.7 else r1["sp"]
        recipes.fix_units(r1)
        if r0["sum"].get("dtype") == "complex":
            recipes.make_complex(r1)
        ops.append({"op": "compile_base", "name": "b1", "recipe": r1, "seed": _seed(rng),
                    "opt": _opt_spec(rng)})
        m.add("b1", list(range(nv)), list(range(nv)), 0, 0, ("b1",))
        base_recipes["b1"] = r1
    domain = recipes.recipe_domain(r0)
    n_early = rng.randint(1, 3)
    for _ in range(n_early):
        d = _gen_derive(rng, m, domain=domain, poly=poly, allow_fault=faults)
        if d is not None:
            ops.append(d)
    n_ops = rng.randint(6, 14) if tier == "quick" else rng.randint(8, 30)
    bases = list(base_recipes)
    for _ in range(n_ops):
        r = rng.random()
        derived = [n for n in m.names if n.startswith("d")]
        if r < 0.25:
            b = rng.choice(bases)
            ops.append({"op": "perturb", "base": b, "mode": _perturb_mode(rng, base_recipes[b]),
                        "scale": rng.choice([0.1, 0.5, 1.0, 3.0]), "seed": _seed(rng)})
        elif r < 0.50:
            b = rng.choice(bases)
            vias = [n for n in m.names if b in m.bases[n]]
            ops.append({"op": "optim", "base": b, "via": rng.choice(vias),
                        "steps": rng.randint(1, 3), "loss": rng.choice(["tanh", "tanh", "nll"]),
                        "seed": _seed(rng)})
        elif r < 0.60:
            ops.append({"op": "reset", "target": rng.choice(m.names), "seed": _seed(rng)})
        elif r < 0.68:
            ops.append({"op": "save", "target": rng.choice(m.names), "slot": f"s{rng.randrange(3)}"})
        elif r < 0.76:
            ops.append({"op": "load", "target": rng.choice(m.names), "slot": f"s{rng.randrange(3)}"})
        elif r < 0.88 and m.nd < 6:
            d = _gen_derive(rng, m, domain=domain, poly=poly, allow_fault=faults)
            if d is not None:
                ops.append(d)
        elif r < 0.93:
            ops.append({"op": "recompile", "target": rng.choice(m.names)})
        else:
            ops.append({"op": "eval", "target": rng.choice(m.names),
                        "batch": rng.choice([1, 2, 4, 7]), "seed": _seed(rng)})
    return {"config": cfg, "ops": ops}


GENERATORS = {"C10": gen_c10}


def generate(prop: str, run_seed: int, tier: str) -> Plan:
    rng = random.Random(run_seed)
    plan = GENERATORS[prop](rng, tier)
    plan["prop"] = prop
    plan["run_seed"] = run_seed
    plan["tier"] = tier
    plan["hash_seed"] = H(run_seed, "hash")
    plan["probe_seed"] = H(run_seed, "probe") % (2**31)
    plan["check_seed"] = H(run_seed, "check")
    return plan
