"""Plan generators for the W-A properties (C10, C12, C17, C19).

``generate(prop, run_seed, tier)`` is a pure function: every choice is drawn from one
``random.Random(run_seed)``; the plan is plain JSON data."""

from __future__ import annotations

import random
from typing import Any

from . import recipes
from .kernel import H

Plan = dict[str, Any]


def _seed(rng: random.Random) -> int:
    return rng.randrange(1, 2**31 - 1)


class _Model:
    """What the generator knows about the circuits it has asked for (names, scopes, depth)."""

    def __init__(self) -> None:
        self.names: list[str] = []
        self.scope: dict[str, list[int]] = {}
        self.full_scope: dict[str, list[int]] = {}
        self.mdepth: dict[str, int] = {}
        self.depth: dict[str, int] = {}
        self.bases: dict[str, tuple[str, ...]] = {}
        self.nd = 0

    def add(self, name: str, scope: list[int], full: list[int], mdepth: int, depth: int,
            bases: tuple[str, ...]) -> None:
        self.names.append(name)
        self.scope[name] = scope
        self.full_scope[name] = full
        self.mdepth[name] = mdepth
        self.depth[name] = depth
        self.bases[name] = bases


def _gen_derive(rng: random.Random, m: _Model, *, domain: tuple[str, int], poly: bool,
                allow_fault: bool, oprs: list[str] | None = None) -> dict[str, Any] | None:
    cands = [n for n in m.names if m.depth[n] < 3]
    if not cands:
        return None
    if oprs is None:
        oprs = ["integrate", "integrate", "multiply", "multiply", "conjugate", "evidence",
                "concatenate"]
        if poly:
            oprs += ["differentiate", "differentiate"]
    opr = rng.choice(oprs)
    name = f"d{m.nd}"
    via = rng.choice(["symbolic", "symbolic", "pipeline", "module"])
    spec: dict[str, Any]
    if opr == "integrate":
        src = rng.choice([n for n in cands if m.scope[n]] or cands)
        sc = m.scope[src]
        if not sc:
            return None
        if rng.random() < 0.6:
            scope = None
            rem: list[int] = []
        else:
            ksz = rng.randint(1, len(sc))
            scope = sorted(rng.sample(sc, ksz))
            rem = [v for v in sc if v not in scope]
        spec = {"opr": opr, "src": [src], "scope": scope, "via": via}
        m.add(name, rem, m.full_scope[src], m.mdepth[src], m.depth[src] + 1, m.bases[src])
    elif opr == "multiply":
        a = rng.choice(cands)
        same = [n for n in cands if m.scope[n] == m.scope[a] and m.mdepth[n] + m.mdepth[a] <= 1]
        if not same or not m.scope[a]:
            return None
        b = rng.choice(same) if rng.random() < 0.7 else a
        if m.mdepth[a] + m.mdepth[b] > 1:
            return None
        spec = {"opr": opr, "src": [a, b], "via": via}
        bases = tuple(dict.fromkeys(m.bases[a] + m.bases[b]))
        m.add(name, m.scope[a], m.full_scope[a], m.mdepth[a] + m.mdepth[b] + 1,
              max(m.depth[a], m.depth[b]) + 1, bases)
    elif opr == "conjugate":
        src = rng.choice(cands)
        spec = {"opr": opr, "src": [src], "via": via}
        m.add(name, m.scope[src], m.full_scope[src], m.mdepth[src], m.depth[src] + 1, m.bases[src])
    elif opr == "evidence":
        src = rng.choice([n for n in cands if m.scope[n]] or cands)
        sc = m.scope[src]
        if not sc:
            return None
        ksz = rng.randint(1, len(sc))
        vs = sorted(rng.sample(sc, ksz))
        if domain[0] == "discrete":
            obs = {str(v): rng.randrange(domain[1]) for v in vs}
        elif rng.random() < 0.1:
            # integer-valued observations of real variables, some beyond what a float can hold
            obs = {str(v): rng.choice([2, -3, 16777217, -16777219, 2**53 + 1]) for v in vs}
        else:
            obs = {str(v): round(rng.uniform(-1.0, 1.0), 3) for v in vs}
        spec = {"opr": opr, "src": [src], "obs": obs, "via": "symbolic"}
        m.add(name, [v for v in sc if v not in vs], m.full_scope[src], m.mdepth[src],
              m.depth[src] + 1, m.bases[src])
    elif opr == "differentiate":
        src = rng.choice([n for n in cands if m.scope[n] == m.full_scope[n]] or cands)
        spec = {"opr": opr, "src": [src], "order": rng.choice([1, 1, 2]), "via": via}
        m.add(name, m.scope[src], m.full_scope[src], m.mdepth[src], m.depth[src] + 1, m.bases[src])
    elif opr == "concatenate":
        a = rng.choice(cands)
        same = [n for n in cands if m.scope[n] == m.scope[a]]
        k = rng.randint(2, 3)
        srcs = [a] + [rng.choice(same) for _ in range(k - 1)]
        spec = {"opr": opr, "src": srcs, "via": via}
        bases = tuple(dict.fromkeys(sum((m.bases[s] for s in srcs), ())))
        m.add(name, m.scope[a], m.full_scope[a], max(m.mdepth[s] for s in srcs),
              max(m.depth[s] for s in srcs) + 1, bases)
    else:
        return None
    m.nd += 1
    if spec["via"] == "module":
        spec["abort_inner"] = allow_fault and rng.random() < 0.6
    if opr in ("integrate", "conjugate") and spec["via"] != "pipeline" and rng.random() < 0.25:
        # compose with an inner operator whose result is never compiled on its own
        src = spec["src"][0]
        inner = rng.choice(["multiply", "multiply", "conjugate", "concatenate"])
        if inner == "multiply" and m.mdepth[src] == 0 and m.scope[src] == m.full_scope[src]:
            same = [n for n in m.names if m.scope[n] == m.scope[src] and m.mdepth[n] == 0
                    and m.depth[n] < 3]
            other = rng.choice(same) if same and rng.random() < 0.6 else src
            spec["src"] = [src, other]
            spec["pre"] = "multiply"
            m.bases[name] = tuple(dict.fromkeys(m.bases[src] + m.bases[other]))
            m.mdepth[name] = 1
        elif inner == "conjugate":
            spec["pre"] = "conjugate"
        elif inner == "concatenate":
            spec["src"] = [src, src]
            spec["pre"] = "concatenate"
    op: dict[str, Any] = {"op": "derive", "name": name, "spec": spec, "seed": _seed(rng)}
    if allow_fault and spec["via"] == "symbolic" and rng.random() < 0.35:
        op["fault"] = {"at": rng.randrange(0, 60), "when": rng.choice(["before", "before", "after"])}
    return op


def _opt_spec(rng: random.Random) -> dict[str, Any]:
    if rng.random() < 0.5:
        return {"kind": "sgd", "lr": rng.choice([0.01, 0.1, 0.5]), "momentum": rng.choice([0.0, 0.9])}
    return {"kind": "adam", "lr": rng.choice([0.01, 0.1, 0.5])}


def _flags(rng: random.Random, monotonic: bool) -> dict[str, Any]:
    if monotonic:
        semiring = rng.choice(["sum-product", "lse-sum", "lse-sum"])
    else:
        semiring = rng.choice(["sum-product", "complex-lse-sum", "complex-lse-sum"])
    return {"semiring": semiring, "fold": rng.random() < 0.6, "optimize": rng.random() < 0.5}


def _perturb_mode(rng: random.Random, recipe: dict[str, Any]) -> str:
    if recipe.get("kind") != "rg":
        return rng.choice(["add", "add", "mulpos"])
    inp = recipe.get("input", {})
    if inp.get("param") == "dirichlet" or recipe.get("positive_raw"):
        return "mulpos"
    return rng.choice(["add", "add", "copy", "mulpos"])


def _maybe_dag(rng: random.Random, r0: dict[str, Any], prob: float) -> dict[str, Any]:
    """With probability ``prob`` replace a region-graph recipe by a DAG recipe with the same input
    and sum parameterisation (not region-graph shaped: shared inputs and sub-circuits)."""
    if r0.get("kind") != "rg" or rng.random() >= prob:
        return r0
    from . import dag_recipes

    return dag_recipes.gen_dag(rng, input_spec=r0["input"], sum_spec=r0["sum"], max_vars=4,
                               nc=r0.get("nc", 1))


def gen_c10(rng: random.Random, tier: str) -> Plan:
    monotonic = rng.random() < 0.5
    cfg = _flags(rng, monotonic)
    cfg["checks"] = ["I1", "I2", "I3", "I4", "plain"]
    faults = rng.random() < 0.4  # fault-free and fault-injecting runs are separate swarm members
    cfg["faults"] = faults
    cfg["batches"] = [rng.choice([2, 3, 5]), rng.choice([1, 1, 2, 8])]
    cfg["check_subset"] = 3
    if rng.random() < 0.15:
        cfg["dtype"] = "float32"
    poly = (not monotonic) and rng.random() < 0.3
    if poly:
        kinds = ["polynomial"]
    elif monotonic:
        kinds = ["categorical", "categorical", "gaussian", "embedding", "binomial"]
    else:
        kinds = ["embedding", "embedding", "categorical", "gaussian"]
    # six variables (2x3 grids) now and then: inner regions with several partitionings, i.e.
    # mixing layers with more than one unit below the root
    rg = recipes.gen_rg(rng, max_vars=6 if rng.random() < 0.2 else 5)
    if rng.random() < 0.01:
        rg = recipes.gen_long_rg(rng)  # > 128 variables
    nv = recipes.rg_num_vars(rg)
    hand = (not poly) and rng.random() < 0.15
    if hand:
        # hand-assembled circuits: constants, mixed initialisers, a hand-built evidence layer
        r0 = gen_hand_recipe(rng, cfg["semiring"])
        nv = r0["nv"]
        scope0 = [v for v in range(nv) if r0["inputs"][v].get("evidence") is None]
    else:
        r0 = recipes.gen_rg_circuit(rng, monotonic=monotonic, rg=rg, kinds=kinds)
        if not monotonic and cfg["semiring"] == "complex-lse-sum" and rng.random() < 0.5:
            recipes.make_complex(r0)
        r0 = _maybe_dag(rng, r0, 0.15)
        if r0["kind"] == "dag":
            nv = r0["nv"]
        scope0 = list(range(nv))
    ops: list[dict[str, Any]] = []
    m = _Model()
    ops.append({"op": "compile_base", "name": "b0", "recipe": r0, "seed": _seed(rng),
                "opt": _opt_spec(rng)})
    m.add("b0", scope0, scope0, 0, 0, ("b0",))
    base_recipes = {"b0": r0}
    if r0["kind"] == "rg" and rng.random() < 0.45:
        r1 = recipes.gen_rg_circuit(rng, monotonic=monotonic, rg=rg, kinds=[r0["input"]["type"]])
        r1["input"] = dict(r0["input"])  # same input family, so that multiply has a rule
        r1["sp"] = r0["sp"] if rng.random() < 0.7 else r1["sp"]
        recipes.fix_units(r1)
        if r0["sum"].get("dtype") == "complex":
            recipes.make_complex(r1)
        ops.append({"op": "compile_base", "name": "b1", "recipe": r1, "seed": _seed(rng),
                    "opt": _opt_spec(rng)})
        m.add("b1", list(range(nv)), list(range(nv)), 0, 0, ("b1",))
        base_recipes["b1"] = r1
    domain = recipes.recipe_domain(r0)
    n_early = rng.randint(1, 3)
    for _ in range(n_early):
        d = _gen_derive(rng, m, domain=domain, poly=poly, allow_fault=faults)
        if d is not None:
            ops.append(d)
    n_ops = rng.randint(6, 14) if tier == "quick" else rng.randint(8, 30)
    if r0.get("kind") == "rg" and r0["rg"].get("n", 0) > 100:
        n_ops = min(n_ops, 12)  # 130-variable circuits: every reference recompilation costs a second
    bases = list(base_recipes)
    evid_names: set[str] = set()
    for _ in range(n_ops):
        r = rng.random()
        evid_names = {o["name"] for o in ops if o["op"] == "derive" and o["spec"]["opr"] == "evidence"}
        derived = [n for n in m.names if n.startswith("d")]
        if r < 0.25:
            b = rng.choice(bases)
            ops.append({"op": "perturb", "base": b, "mode": _perturb_mode(rng, base_recipes[b]),
                        "scale": rng.choice([0.1, 0.5, 1.0, 3.0]), "seed": _seed(rng)})
        elif r < 0.50:
            b = rng.choice(bases)
            vias = [n for n in m.names if b in m.bases[n]]
            ops.append({"op": "optim", "base": b, "via": rng.choice(vias),
                        "steps": rng.randint(1, 3), "loss": rng.choice(["tanh", "tanh", "nll"]),
                        "joint": rng.random() < 0.3, "seed": _seed(rng)})
        elif r < 0.60:
            o = {"op": "reset", "target": rng.choice(m.names), "seed": _seed(rng)}
            if faults and rng.random() < 0.3:
                o["fault"] = {"at": rng.randrange(0, 12), "when": rng.choice(["before", "after"])}
            ops.append(o)
        elif r < 0.68:
            ops.append({"op": "save", "target": rng.choice(m.names), "slot": f"s{rng.randrange(3)}"})
        elif r < 0.76:
            ops.append({"op": "load", "target": rng.choice(m.names), "slot": f"s{rng.randrange(3)}",
                        "assign": rng.random() < 0.2})
        elif r < 0.80:
            if rng.random() < 0.4:
                ops.append({"op": "foreign_compile", "target": rng.choice(m.names), "seed": _seed(rng),
                            "flags": {"fold": rng.random() < 0.5, "optimize": rng.random() < 0.5}})
            else:
                # prefer circuits that hold constants others may read: evidence circuits (their
                # observation) with something derived from them, hand-assembled bases
                holders = [n for n in m.names if n in evid_names and any(
                    n in (o.get("spec", {}).get("src") or []) for o in ops if o["op"] == "derive")]
                if hand:
                    holders.append("b0")
                tgt = rng.choice(holders) if holders and rng.random() < 0.8 else rng.choice(m.names)
                ops.append({"op": "load_edited", "target": tgt, "seed": _seed(rng),
                            "mode": rng.choice(["mul", "add"]), "scale": rng.choice([0.3, 1.0])})
        elif r < 0.88 and m.nd < 6:
            d = _gen_derive(rng, m, domain=domain, poly=poly, allow_fault=faults)
            if d is not None:
                ops.append(d)
        elif r < 0.91:
            ops.append({"op": "recompile", "target": rng.choice(m.names)})
        elif r < 0.94:
            ops.append({"op": "mode", "target": rng.choice(m.names), "train": rng.random() < 0.4,
                        "grad": rng.choice([None, "no_grad", "inference", "enabled"])})
        else:
            ops.append({"op": "eval", "target": rng.choice(m.names),
                        "batch": rng.choice([1, 2, 4, 7, 7, 257, 1025]), "seed": _seed(rng)})
    return {"config": cfg, "ops": ops}


# ---------------------------------------------------------------------------
# C17: hand-assembled circuits whose fold groups mix initialisers


def _gen_init(rng: random.Random, shape: tuple[int, ...], *, positive: bool, dtype: str,
              twins: list[dict[str, Any]] | None = None) -> dict[str, Any]:
    if twins and rng.random() < 0.3:
        # same-looking initialisers on different tensors of one circuit: an exact twin, or a
        # twin differing beyond the printed precision / in one entry in the middle
        base = rng.choice(twins)
        if base["shape"] == list(shape) and base["dtype"] == dtype:
            v = dict(base["value"])
            v["tweak"] = rng.choice(["eps", "middle", None])
            return {"type": "const", "value": v}
    kinds = ["const", "const_array", "uniform", "normal", "dirichlet", "dirichlet"]
    if positive:
        kinds = ["const", "const_array", "uniform", "dirichlet", "dirichlet"]
    if dtype == "complex":
        kinds = ["const", "const_array", "normal", "uniform"]
    t = rng.choice(kinds)
    if t == "const":
        if dtype == "complex" and rng.random() < 0.6:
            return {"type": "const", "value": {"complex": [round(rng.uniform(0.2, 1.5), 3),
                                                            round(rng.uniform(-1, 1), 3)]}}
        if rng.random() < 0.3:
            return {"type": "const", "value": rng.randint(1, 4)}
        v = round(rng.uniform(0.1, 2.0), 3)
        if not positive and rng.random() < 0.3:
            v = -v
        return {"type": "const", "value": v}
    if t == "const_array":
        bshape = None
        r = rng.random()
        if r < 0.25:
            bshape = [shape[-1]]
        elif r < 0.4 and len(shape) >= 2:
            bshape = [shape[0], 1]
        elif r < 0.5:
            bshape = [1] * len(shape)
        akind = "complex" if dtype == "complex" and rng.random() < 0.6 else rng.choice(
            ["float", "float", "float32", "int", "near", "tiny"])
        val = {"array": rng.randrange(10**6), "bshape": bshape, "dtype": akind}
        if twins is not None and akind == "float" and bshape is None:
            twins.append({"shape": list(shape), "dtype": dtype, "value": val})
        return {"type": "const", "value": val}
    if t == "uniform":
        a = round(rng.uniform(0.05, 1.0), 3) if positive else round(rng.uniform(-2.0, 0.5), 3)
        return {"type": "uniform", "a": a, "b": round(a + rng.uniform(0.3, 2.0), 3)}
    if t == "normal":
        return {"type": "normal", "mean": round(rng.uniform(-1.0, 1.0), 3),
                "std": round(rng.uniform(0.2, 2.0), 3)}
    axis = rng.randrange(-len(shape), len(shape))
    n = shape[axis]
    if rng.random() < 0.5:
        alpha: Any = rng.choice([0.5, 1.0, 2.0, 5.0])
    else:
        alpha = [rng.choice([0.5, 1.0, 2.0, 4.0]) for _ in range(n)]
    return {"type": "dirichlet", "alpha": alpha, "axis": axis}


def _gen_pspec(rng: random.Random, shape: tuple[int, ...], *, positive: bool, dtype: str,
               learnable: bool, acts: list[str],
               twins: list[dict[str, Any]] | None = None) -> dict[str, Any]:
    act = rng.choice(acts)
    need_pos = positive and act == "none"
    init = _gen_init(rng, shape, positive=need_pos, dtype=dtype, twins=twins)
    tp: dict[str, Any] = {"init": init, "learnable": learnable, "dtype": dtype}
    if init["type"] == "const" and not learnable and rng.random() < 0.4:
        v = init["value"]
        is_int = isinstance(v, int) or (isinstance(v, dict) and v.get("dtype") == "int")
        is_cplx = isinstance(v, dict) and ("complex" in v or v.get("dtype") == "complex")
        if not is_int and (dtype == "complex") == is_cplx:
            tp["constparam"] = True
    return {"tp": tp, "act": act}


def gen_hand_recipe(rng: random.Random, semiring: str) -> dict[str, Any]:
    nv = rng.randint(2, 4)
    k = rng.randint(2, 4)
    K = rng.randint(1, 3)
    wide = rng.random() < 0.12
    if wide:
        # big tables (> 1000 entries): embedding layers over a variable with hundreds of states
        k = rng.randint(340, 420)
        K = 3
    twins: list[dict[str, Any]] = []
    cplx = semiring != "lse-sum" and rng.random() < 0.2
    dtype = "complex" if cplx else "real"
    positive = semiring == "lse-sum"
    if cplx:
        acts = ["none"]
    elif positive:
        acts = ["none", "softmax", "softplus", "sigmoid", "exp"]
    else:
        acts = ["none", "none", "none", "softmax", "softplus", "square"]
    ltypes = ["embedding", "embedding", "categorical_probs", "categorical_logits"]
    if cplx:
        ltypes = ["embedding"]
    if wide:
        ltypes = ["embedding"]
    ltype = rng.choice(ltypes)
    # one fold group: same layer class, same learnable flag and dtype - different initialisers
    same_flags = rng.random() < 0.8
    g_learn = rng.random() < 0.75
    inputs = []
    for v in range(nv):
        lt = ltype if rng.random() < 0.85 else rng.choice(ltypes)
        learn = g_learn if same_flags else rng.random() < 0.6
        if lt == "categorical_probs":
            ps = _gen_pspec(rng, (K, k), positive=True, dtype="real", learnable=learn,
                            acts=["none", "softmax", "sigmoid"])
        elif lt == "categorical_logits":
            ps = _gen_pspec(rng, (K, k), positive=False, dtype="real", learnable=learn, acts=["none"])
        else:
            ps = _gen_pspec(rng, (K, k), positive=positive, dtype=dtype, learnable=learn, acts=acts,
                            twins=twins)
        ps["layer"] = lt
        inputs.append(ps)
    if not cplx and rng.random() < (0.5 if wide else 0.2):
        # twin tables: same-looking constant arrays on different tensors of one circuit
        seed = rng.randrange(10**6)
        lt = "categorical_probs" if positive and not wide else "embedding"
        learn = rng.random() < 0.5
        for j, v in enumerate(rng.sample(range(nv), rng.randint(2, nv))):
            val: dict[str, Any] = {"array": seed, "bshape": None, "dtype": "float"}
            if j > 0:
                val["tweak"] = rng.choice(["eps", "middle", "middle", None])
            inputs[v] = {"tp": {"init": {"type": "const", "value": val}, "learnable": learn,
                                "dtype": "real"}, "act": "none", "layer": lt}
    if not cplx and not wide and rng.random() < 0.15:
        # a small palette of scalar constants repeated / interleaved over many same-shaped tensors
        # of one fold group (e.g. 1, 2, 1, 2, 2): as frozen tables in practice
        nv = rng.randint(4, 6)
        palette = rng.sample([0.5, 1.0, 2.0, 3, 1.5, 0.25], rng.randint(2, 3))
        lt = "categorical_probs" if positive else rng.choice(["embedding", "categorical_logits"])
        learn = rng.random() < 0.5
        inputs = [{"tp": {"init": {"type": "const", "value": rng.choice(palette)}, "learnable": learn,
                          "dtype": "real"}, "act": "none", "layer": lt} for _ in range(nv)]
    gaussian = (not cplx) and (not wide) and rng.random() < 0.15
    if gaussian:
        # all-Gaussian inputs: rank-1 parameters (mean, stddev of shape (K,)) next to rank-2 sums
        inputs = []
        for v in range(nv):
            ms = _gen_pspec(rng, (K,), positive=False, dtype="real", learnable=g_learn, acts=["none"])
            # the standard deviation always goes through a positive activation, so that no
            # update can make the layer invalid
            sd = _gen_pspec(rng, (K,), positive=False, dtype="real", learnable=g_learn,
                            acts=["softplus", "sigmoid", "exp"])
            if sd["tp"]["init"]["type"] in ("const", "dirichlet"):
                sd["tp"]["init"] = {"type": "uniform", "a": -1.0, "b": 1.0}
                sd["tp"].pop("constparam", None)
            ms["layer"] = "gaussian"
            ms["stddev"] = sd
            if rng.random() < 0.4:
                ms["log_partition"] = _gen_pspec(rng, (K,), positive=False, dtype="real",
                                                 learnable=g_learn, acts=["none"])
                if ms["log_partition"]["tp"]["init"]["type"] == "dirichlet":
                    ms["log_partition"]["tp"]["init"] = {"type": "normal", "mean": 0.0, "std": 0.5}
                    ms["log_partition"]["tp"].pop("constparam", None)
            inputs.append(ms)
    if rng.random() < 0.3 and not gaussian:
        v = rng.randrange(nv)
        inputs[v]["evidence"] = rng.randrange(k)
    sums = None
    if rng.random() < 0.7:
        s_learn = rng.random() < 0.75
        stwins: list[dict[str, Any]] = []
        sums = [_gen_pspec(rng, (K, K), positive=positive, dtype=dtype,
                           learnable=s_learn if same_flags else rng.random() < 0.6, acts=acts,
                           twins=stwins)
                for _ in range(nv)]
    nc = rng.choice([1, 1, 2])
    top = _gen_pspec(rng, (nc, K), positive=positive, dtype=dtype, learnable=rng.random() < 0.8,
                     acts=acts)
    if rng.random() < (0.7 if gaussian else 0.35):
        # one initialiser *object* shared by several parameters, possibly of different rank
        # (the lower-rank ones are constructed first: inputs, then sums, then the top)
        r = rng.random()
        if r < 0.5:
            shared: dict[str, Any] = {"type": "dirichlet", "alpha": rng.choice([0.5, 1.0, 2.0]),
                                      "axis": -1, "share": 1}
        elif r < 0.75:
            shared = {"type": "uniform", "a": 0.2, "b": round(rng.uniform(0.8, 2.0), 3), "share": 1}
        else:
            shared = {"type": "normal", "mean": 0.5, "std": round(rng.uniform(0.2, 1.0), 3), "share": 1}
        positive_ok = shared["type"] != "normal"
        targets: list[dict[str, Any]] = []
        for ispec in inputs:
            if ispec.get("layer") == "gaussian":
                targets.append(ispec["stddev"] if rng.random() < 0.7 else ispec)
            elif ispec.get("layer") == "embedding" and (positive_ok or not positive):
                targets.append(ispec)
        for sspec in (sums or []):
            if positive_ok or not positive:
                targets.append(sspec)
        if positive_ok or not positive:
            targets.append(top)
        chosen = [t for t in targets if rng.random() < 0.6]
        if len(chosen) >= 2:
            for t in chosen:
                if t["tp"].get("dtype", "real") == "real" and not t["tp"].get("constparam"):
                    t["tp"]["init"] = dict(shared)
    dom = ["real", 0] if gaussian else ["discrete", k]
    return {"kind": "hand", "nv": nv, "k": k, "units": K, "inputs": inputs, "sums": sums,
            "top": top, "nc": nc, "domain": dom}


def gen_c17(rng: random.Random, tier: str) -> Plan:
    hand = rng.random() < 0.75
    if hand:
        semiring = rng.choice(["sum-product", "sum-product", "lse-sum", "complex-lse-sum"])
        cfg: dict[str, Any] = {"semiring": semiring, "fold": rng.random() < 0.7,
                               "optimize": rng.random() < 0.4}
        r0 = gen_hand_recipe(rng, semiring)
        monotonic = semiring == "lse-sum"
        nv = r0["nv"]
        scope0 = [v for v in range(nv) if r0["inputs"][v].get("evidence") is None]
    else:
        monotonic = rng.random() < 0.5
        cfg = _flags(rng, monotonic)
        rg = recipes.gen_rg(rng, max_vars=5)
        nv = recipes.rg_num_vars(rg)
        r0 = recipes.gen_rg_circuit(rng, monotonic=monotonic, rg=rg,
                                    kinds=["categorical", "embedding", "gaussian", "binomial"])
        if not monotonic and cfg["semiring"] == "complex-lse-sum" and rng.random() < 0.5:
            recipes.make_complex(r0)
        scope0 = list(range(nv))
    cfg["checks"] = []
    cfg["faults"] = False
    cfg["batches"] = [2]
    cfg["check_subset"] = 2
    if rng.random() < 0.2:
        cfg["dtype"] = "float32"
    ops: list[dict[str, Any]] = []
    m = _Model()
    ops.append({"op": "compile_base", "name": "b0", "recipe": r0, "seed": _seed(rng),
                "opt": _opt_spec(rng)})
    m.add("b0", scope0, scope0, 0, 0, ("b0",))
    domain = recipes.recipe_domain(r0)
    n_ops = rng.randint(5, 12) if tier == "quick" else rng.randint(8, 24)
    for _ in range(n_ops):
        r = rng.random()
        if r < 0.30:
            ops.append({"op": "reset", "target": rng.choice(m.names), "seed": _seed(rng)})
        elif r < 0.45:
            ops.append({"op": "reset_burst", "target": "b0" if rng.random() < 0.8 else rng.choice(m.names),
                        "count": rng.choice([5, 10, 20, 40]), "seed": _seed(rng)})
        elif r < 0.58:
            ops.append({"op": "perturb", "base": "b0", "mode": rng.choice(["add", "copy", "mulpos"]),
                        "scale": rng.choice([0.5, 1.0, 3.0]), "seed": _seed(rng)})
        elif r < 0.68:
            ops.append({"op": "optim", "base": "b0", "via": rng.choice(m.names),
                        "steps": rng.randint(1, 2), "loss": "tanh", "seed": _seed(rng)})
        elif r < 0.75:
            ops.append({"op": "save", "target": rng.choice(m.names), "slot": f"s{rng.randrange(2)}"})
        elif r < 0.82:
            ops.append({"op": "load", "target": rng.choice(m.names), "slot": f"s{rng.randrange(2)}"})
        elif r < 0.93 and m.nd < 3:
            d = _gen_derive(rng, m, domain=domain, poly=False, allow_fault=False,
                            oprs=["integrate", "multiply", "conjugate", "evidence", "concatenate"])
            if d is not None:
                ops.append(d)
        else:
            ops.append({"op": "restart", "mode": "same", "seed": _seed(rng),
                        "hash_seed": rng.getrandbits(60)})
    return {"config": cfg, "ops": ops}


# ---------------------------------------------------------------------------
# C19: durable store, restarts, loads into freshly compiled instances


def gen_c19(rng: random.Random, tier: str) -> Plan:
    hand = rng.random() < 0.25
    poly = False
    if hand:
        semiring = rng.choice(["sum-product", "lse-sum", "complex-lse-sum"])
        cfg: dict[str, Any] = {"semiring": semiring, "fold": rng.random() < 0.65,
                               "optimize": rng.random() < 0.5}
        r0 = gen_hand_recipe(rng, semiring)
        nv = r0["nv"]
        scope0 = [v for v in range(nv) if r0["inputs"][v].get("evidence") is None]
        rg = None
        monotonic = semiring == "lse-sum"
    else:
        monotonic = rng.random() < 0.5
        cfg = _flags(rng, monotonic)
        poly = (not monotonic) and rng.random() < 0.2
        kinds = ["polynomial"] if poly else (
            ["categorical", "categorical", "gaussian", "embedding", "binomial"] if monotonic
            else ["embedding", "embedding", "categorical", "gaussian"])
        rg = recipes.gen_rg(rng, max_vars=6 if rng.random() < 0.2 else 5)
        if rng.random() < 0.01:
            rg = recipes.gen_long_rg(rng)  # > 128 variables
        nv = recipes.rg_num_vars(rg)
        r0 = recipes.gen_rg_circuit(rng, monotonic=monotonic, rg=rg, kinds=kinds)
        if not monotonic and cfg["semiring"] == "complex-lse-sum" and rng.random() < 0.5:
            recipes.make_complex(r0)
        r0 = _maybe_dag(rng, r0, 0.15)
        if r0["kind"] == "dag":
            nv = r0["nv"]
            rg = None
        scope0 = list(range(nv))
    cfg["checks"] = ["S1", "S3", "memo", "D2"]
    cfg["faults"] = False
    if rng.random() < 0.2:
        cfg["dtype"] = "float32"
    cfg["batches"] = [rng.choice([2, 3]), rng.choice([1, 4])]
    cfg["check_subset"] = 3
    ops: list[dict[str, Any]] = []
    m = _Model()
    ops.append({"op": "compile_base", "name": "b0", "recipe": r0, "seed": _seed(rng),
                "opt": _opt_spec(rng)})
    m.add("b0", scope0, scope0, 0, 0, ("b0",))
    base_recipes = {"b0": r0}
    if rg is not None and rng.random() < 0.35:
        r1 = recipes.gen_rg_circuit(rng, monotonic=monotonic, rg=rg, kinds=[r0["input"]["type"]])
        r1["input"] = dict(r0["input"])
        r1["sp"] = r0["sp"] if rng.random() < 0.7 else r1["sp"]
        recipes.fix_units(r1)
        if r0["sum"].get("dtype") == "complex":
            recipes.make_complex(r1)
        ops.append({"op": "compile_base", "name": "b1", "recipe": r1, "seed": _seed(rng),
                    "opt": _opt_spec(rng)})
        m.add("b1", scope0, scope0, 0, 0, ("b1",))
        base_recipes["b1"] = r1
    domain = recipes.recipe_domain(r0)
    for _ in range(rng.randint(1, 3)):
        d = _gen_derive(rng, m, domain=domain, poly=poly, allow_fault=False)
        if d is not None:
            ops.append(d)
    bases = list(base_recipes)
    slots: dict[str, str] = {}

    def mutate() -> dict[str, Any]:
        b = rng.choice(bases)
        r = rng.random()
        if r < 0.5:
            mode = _perturb_mode(rng, base_recipes[b]) if base_recipes[b]["kind"] == "rg" else "add"
            return {"op": "perturb", "base": b, "mode": mode,
                    "scale": rng.choice([0.1, 0.5, 1.0]), "seed": _seed(rng)}
        if r < 0.85:
            vias = [n for n in m.names if b in m.bases[n]]
            return {"op": "optim", "base": b, "via": rng.choice(vias), "steps": rng.randint(1, 2),
                    "loss": rng.choice(["tanh", "nll"]), "seed": _seed(rng)}
        return {"op": "reset", "target": rng.choice(m.names), "seed": _seed(rng)}

    def quiet(o: dict[str, Any]) -> dict[str, Any]:
        if rng.random() < 0.3:
            o["quiet"] = True  # not observed: the next operation meets the state as the update left it
        return o

    def save() -> dict[str, Any]:
        slot = f"s{rng.randrange(4)}"
        tgt = rng.choice(m.names) if rng.random() < 0.6 else rng.choice(bases)
        slots[slot] = tgt
        return {"op": "save", "target": tgt, "slot": slot}

    def load() -> dict[str, Any] | None:
        if not slots:
            return None
        slot = rng.choice(sorted(slots))
        return {"op": "load", "target": slots[slot], "slot": slot, "assign": rng.random() < 0.3}

    def restart() -> dict[str, Any]:
        return {"op": "restart", "mode": rng.choice(["same", "rebuild"]), "seed": _seed(rng),
                "hash_seed": rng.getrandbits(60)}

    n_ops = rng.randint(5, 12) if tier == "quick" else rng.randint(8, 26)
    if r0.get("kind") == "rg" and r0["rg"].get("n", 0) > 100:
        n_ops = min(n_ops, 10)
    for _ in range(n_ops):
        r = rng.random()
        if r < 0.33:
            ops.append(quiet(mutate()))
        elif r < 0.35:
            ops.append({"op": "query", "target": rng.choice(m.names), "seed": _seed(rng)})
        elif r < 0.55:
            ops.append(save())
        elif r < 0.72:
            o = load()
            if o is not None:
                ops.append(o)
        elif r < 0.84:
            ops.append(restart())
        elif r < 0.94 and m.nd < 5:
            d = _gen_derive(rng, m, domain=domain, poly=poly, allow_fault=False)
            if d is not None:
                ops.append(d)
        elif r < 0.96:
            ops.append({"op": "mode", "target": rng.choice(m.names), "train": rng.random() < 0.4,
                        "grad": rng.choice([None, "no_grad", "inference", "enabled"])})
        elif r < 0.98:
            ops.append({"op": "foreign_compile", "target": rng.choice(m.names), "seed": _seed(rng),
                        "flags": {"fold": rng.random() < 0.5, "optimize": rng.random() < 0.5}})
        else:
            ops.append({"op": "eval", "target": rng.choice(m.names),
                        "batch": rng.choice([1, 2, 5, 5, 300, 1030]), "seed": _seed(rng)})
    if rng.random() < 0.75:
        # the canonical scenario: train, checkpoint, train on, crash, recompile, restore
        ops.append(quiet(mutate()))
        if rng.random() < 0.15:
            ops.append({"op": "query", "target": rng.choice(m.names), "seed": _seed(rng)})
        ops.append(save())
        if rng.random() < 0.5:
            ops.append(save())
        ops.append(mutate())
        ops.append(restart())
        if rng.random() < 0.3:
            ops.append({"op": "foreign_compile", "target": rng.choice(m.names), "seed": _seed(rng),
                        "flags": {"fold": rng.random() < 0.5, "optimize": rng.random() < 0.5}})
        for slot in sorted(slots):
            if rng.random() < 0.8:
                ops.append({"op": "load", "target": slots[slot], "slot": slot,
                            "assign": rng.random() < 0.3})
        if rng.random() < 0.4 and m.nd < 6:
            d = _gen_derive(rng, m, domain=domain, poly=poly, allow_fault=False)
            if d is not None:
                ops.append(d)
    return {"config": cfg, "ops": ops}


# ---------------------------------------------------------------------------
# C12: template-built normalised circuits under training histories


def gen_c12(rng: random.Random, tier: str) -> Plan:
    from . import templates_recipes

    cfg: dict[str, Any] = {"semiring": rng.choice(["sum-product", "lse-sum", "lse-sum"]),
                           "fold": rng.random() < 0.6, "optimize": rng.random() < 0.5}
    cfg["checks"] = []
    cfg["faults"] = False
    cfg["batches"] = [rng.choice([3, 5]), 1]
    cfg["check_subset"] = 2
    if rng.random() < 0.3:
        cfg["dtype"] = "float32"
    if rng.random() < 0.4:
        r0 = recipes.gen_rg_circuit(rng, monotonic=True, normalized=True,
                                    rg=recipes.gen_long_rg(rng) if rng.random() < 0.015 else None,
                                    max_vars=6 if rng.random() < 0.25 else 5,
                                    kinds=["categorical", "categorical", "binomial", "gaussian",
                                           "embedding"])
        nv = recipes.rg_num_vars(r0["rg"])
        gaussian = r0["input"]["type"] == "gaussian"
        integrable = r0["input"]["type"] != "binomial"
        r0 = _maybe_dag(rng, r0, 0.3)
        if r0["kind"] == "dag":
            nv = r0["nv"]
    else:
        r0 = templates_recipes.gen_template(rng)
        nv = r0["nv"]
        gaussian = r0["domain"][0] == "real"
        integrable = True
    ops: list[dict[str, Any]] = []
    ops.append({"op": "compile_base", "name": "b0", "recipe": r0, "seed": _seed(rng),
                "opt": {"kind": "sgd", "lr": rng.choice([0.1, 0.5, 1.0]), "momentum": 0.0}
                if rng.random() < 0.5 else {"kind": "adam", "lr": rng.choice([0.05, 0.5])}})
    names = ["b0"]
    if integrable and rng.random() < 0.75:
        ops.append({"op": "derive", "name": "d0", "seed": _seed(rng),
                    "spec": {"opr": "integrate", "src": ["b0"], "scope": None,
                             "via": rng.choice(["symbolic", "pipeline"])}})
        names.append("d0")
    if integrable and nv >= 2 and nv <= 8 and rng.random() < 0.35:
        # the partition function by integration in stages: some variables first, then the rest
        part = sorted(rng.sample(range(nv), rng.randint(1, nv - 1)))
        ops.append({"op": "derive", "name": "p0", "seed": _seed(rng),
                    "spec": {"opr": "integrate", "src": ["b0"], "scope": part, "via": "symbolic"}})
        ops.append({"op": "derive", "name": "p1", "seed": _seed(rng),
                    "spec": {"opr": "integrate", "src": ["p0"], "scope": None,
                             "via": rng.choice(["symbolic", "pipeline"])}})
        names += ["p0", "p1"]
    late_integrate = integrable and "d0" not in names
    n_ops = rng.randint(5, 11) if tier == "quick" else rng.randint(8, 24)
    scales = [0.5, 1.0, 3.0] if gaussian else [0.5, 2.0, 5.0, 10.0]
    for _ in range(n_ops):
        r = rng.random()
        if r < 0.35:
            ops.append({"op": "optim", "base": "b0", "via": "b0", "steps": rng.randint(1, 4),
                        "loss": rng.choice(["nll", "nll", "nll_z"]), "joint": rng.random() < 0.5,
                        "seed": _seed(rng)})
        elif r < 0.65:
            ops.append({"op": "perturb", "base": "b0", "mode": rng.choice(["add", "copy"]),
                        "scale": rng.choice(scales), "seed": _seed(rng)})
        elif r < 0.75:
            ops.append({"op": "reset", "target": rng.choice(names), "seed": _seed(rng)})
        elif r < 0.82:
            ops.append({"op": "save", "target": "b0", "slot": f"s{rng.randrange(2)}"})
        elif r < 0.89:
            ops.append({"op": "load", "target": "b0", "slot": f"s{rng.randrange(2)}"})
        elif r < 0.93 and late_integrate:
            late_integrate = False
            ops.append({"op": "derive", "name": "d0", "seed": _seed(rng),
                        "spec": {"opr": "integrate", "src": ["b0"], "scope": None, "via": "symbolic"}})
            names.append("d0")
        elif r < 0.97:
            ops.append({"op": "restart", "mode": "same", "seed": _seed(rng),
                        "hash_seed": rng.getrandbits(60)})
        else:
            ops.append({"op": "eval", "target": "b0", "batch": rng.choice([1, 2, 7]), "seed": _seed(rng)})
    return {"config": cfg, "ops": ops}


GENERATORS = {"C10": gen_c10, "C12": gen_c12, "C17": gen_c17, "C19": gen_c19}


def generate(prop: str, run_seed: int, tier: str) -> Plan:
    rng = random.Random(run_seed)
    plan = GENERATORS[prop](rng, tier)
    if rng.random() < 0.1:
        # the process has compiled something under the other default dtype before
        plan["ops"].insert(0, {"op": "dtype_prelude", "seed": _seed(rng)})
    plan["prop"] = prop
    plan["run_seed"] = run_seed
    plan["tier"] = tier
    plan["hash_seed"] = H(run_seed, "hash")
    plan["probe_seed"] = H(run_seed, "probe") % (2**31)
    plan["check_seed"] = H(run_seed, "check")
    return plan
