"""Random smooth and decomposable circuits that are *not* region-graph shaped (DESIGN.md 3):
directed acyclic graphs in which input layers and sub-circuits are shared by several parents,
products have arity 2-3 (Hadamard, or Kronecker followed by a dense sum), sums have arity 1-3.

The structure is explicit in the recipe (a node list), so that plans replay and shrink
independently of the generator:

    {"kind": "dag", "nv": n, "units": K, "input": <input spec of recipes._input_factory>,
     "sum": <parameterisation spec>, "nodes": [node, ...]}          root = last node
    node = {"t": "in", "v": v} | {"t": "prod", "ch": [i, ...], "kron": bool} | {"t": "sum", "ch": [i, ...], "out": units}

Every node has ``K`` output units except Kronecker products (K ** arity, always followed by a
sum) and the root (``nc`` units)."""

from __future__ import annotations

import random
from typing import Any

from .kernel import HarnessError

Recipe = dict[str, Any]


def gen_dag(rng: random.Random, *, input_spec: Recipe, sum_spec: Recipe, max_vars: int = 4,
            nc: int = 1, min_units: int = 1) -> Recipe:
    n = rng.randint(2, max_vars)
    K = rng.randint(min_units, 3)
    nodes: list[Recipe] = []
    scope: list[frozenset[int]] = []

    def add(node: Recipe, sc: frozenset[int]) -> int:
        nodes.append(node)
        scope.append(sc)
        return len(nodes) - 1

    for v in range(n):
        add({"t": "in", "v": v}, frozenset([v]))
        if rng.random() < 0.35:
            add({"t": "in", "v": v}, frozenset([v]))
    full = frozenset(range(n))

    def product_of(first: int) -> int | None:
        cur = [first]
        sc = scope[first]
        arity = rng.choice([2, 2, 3])
        cands = [i for i in range(len(nodes)) if not (scope[i] & sc) and nodes[i].get("units", K) == K]
        while len(cur) < arity and cands:
            j = rng.choice(cands)
            cur.append(j)
            sc = sc | scope[j]
            cands = [i for i in cands if not (scope[i] & sc)]
        if len(cur) < 2:
            return None
        if rng.random() < 0.5:
            cur.sort()  # children in layer order: the fold gather may become a plain view
        kron = len(cur) == 2 and K <= 2 and rng.random() < 0.2
        p = add({"t": "prod", "ch": cur, "kron": kron}, sc)
        if kron:
            nodes[p]["units"] = K ** len(cur)
            return add({"t": "sum", "ch": [p], "out": K}, sc)
        return p

    for _ in range(rng.randint(2, 7)):
        usable = [i for i in range(len(nodes)) if nodes[i].get("units", K) == K]
        if rng.random() < 0.6:
            i = rng.choice(usable)
            if scope[i] != full:
                product_of(i)
        else:
            i = rng.choice(usable)
            same = [j for j in usable if scope[j] == scope[i]]
            ch = rng.sample(same, min(len(same), rng.choice([1, 2, 2, 3])))
            add({"t": "sum", "ch": ch, "out": K}, scope[i])
    # roots: cover the full scope
    tops = [i for i in range(len(nodes)) if scope[i] == full and nodes[i].get("units", K) == K]
    tries = 0
    while len(tops) < rng.choice([1, 1, 2]) and tries < 6:
        tries += 1
        usable = [i for i in range(len(nodes)) if nodes[i].get("units", K) == K and scope[i] != full]
        cur = rng.choice(usable)
        while scope[cur] != full:
            nxt = product_of(cur)
            if nxt is None:
                break
            cur = nxt
        if scope[cur] == full:
            tops.append(cur)
    if not tops:
        raise HarnessError("dag generator could not cover the scope")
    add({"t": "sum", "ch": tops, "out": nc}, full)
    # keep only the ancestors of the root, renumbered
    keep: set[int] = set()
    stack = [len(nodes) - 1]
    while stack:
        i = stack.pop()
        if i in keep:
            continue
        keep.add(i)
        stack.extend(nodes[i].get("ch", []))
    order = sorted(keep)
    ren = {old: new for new, old in enumerate(order)}
    out_nodes = []
    for old in order:
        nd = dict(nodes[old])
        if "ch" in nd:
            nd["ch"] = [ren[c] for c in nd["ch"]]
        nd.pop("units", None)
        out_nodes.append(nd)
    return {"kind": "dag", "nv": n, "units": K, "input": input_spec, "sum": sum_spec,
            "nodes": out_nodes, "nc": nc}


def build_dag(r: Recipe) -> Any:
    from cirkit.symbolic.circuit import Circuit
    from cirkit.symbolic.layers import HadamardLayer, KroneckerLayer, SumLayer
    from cirkit.utils.scope import Scope

    from .recipes import _input_factory, _param_factory

    K = int(r["units"])
    in_f = _input_factory(r["input"])
    sum_f = _param_factory(r["sum"])
    layers: list[Any] = []
    units: list[int] = []
    in_layers: dict[Any, list[Any]] = {}
    for nd in r["nodes"]:
        t = nd["t"]
        if t == "in":
            l = in_f(Scope([nd["v"]]), K)
            in_layers[l] = []
            u = K
        elif t == "prod":
            ch = [layers[c] for c in nd["ch"]]
            cu = units[nd["ch"][0]]
            if any(units[c] != cu for c in nd["ch"]):
                raise HarnessError("dag: product of layers with different widths")
            if nd.get("kron"):
                l = KroneckerLayer(cu, arity=len(ch))
                u = cu ** len(ch)
            else:
                l = HadamardLayer(cu, arity=len(ch))
                u = cu
            in_layers[l] = ch
        elif t == "sum":
            ch = [layers[c] for c in nd["ch"]]
            cu = units[nd["ch"][0]]
            if any(units[c] != cu for c in nd["ch"]):
                raise HarnessError("dag: sum of layers with different widths")
            u = int(nd.get("out", K))
            l = SumLayer(cu, u, arity=len(ch), weight_factory=sum_f)
            in_layers[l] = ch
        else:
            raise HarnessError(f"dag: unknown node type {t}")
        layers.append(l)
        units.append(u)
    return Circuit(layers, in_layers, [layers[-1]])
