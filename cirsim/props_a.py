"""Property-specific wiring of world W-A: hooks, non-triviality rules, shape keys."""

from __future__ import annotations

from typing import Any

from .kernel import Trace
from .world_a import WorldA


def _shape_key(plan: dict[str, Any], extra: str = "") -> str:
    cfg = plan["config"]
    kinds = []
    for op in plan["ops"]:
        k = op["op"]
        if k == "derive":
            k += ":" + op["spec"]["opr"]
        elif k == "compile_base":
            r = op["recipe"]
            k += ":" + str(r.get("kind")) + ":" + str(r.get("sp", r.get("template", "")))
        kinds.append(k)
    return "|".join([cfg["semiring"], str(cfg["fold"]), str(cfg["optimize"]),
                     str(cfg.get("dtype", "float64")), ",".join(kinds), extra])


def run(plan: dict[str, Any], tr: Trace) -> dict[str, Any]:
    import torch

    if plan["config"].get("dtype") == "float32":
        # single precision (the library's default) as a swarm member: only C12 asks for it
        torch.set_default_dtype(torch.float32)
        try:
            return _run(plan, tr)
        finally:
            torch.set_default_dtype(torch.float64)
    return _run(plan, tr)


def _run(plan: dict[str, Any], tr: Trace) -> dict[str, Any]:
    prop = plan["prop"]
    w = WorldA(plan, tr)
    if prop == "C12":
        from .checks_c12 import install

        install(w)
    elif prop == "C17":
        from .checks_c17 import install

        install(w)
    elif prop == "C19":
        from .checks_c19 import install

        install(w)
    w.run()
    s = tr.stats
    if prop == "C10":
        # >= 1 derived circuit tracked, >= 1 mutating operation after its compilation,
        # >= 1 I2 comparison afterwards
        derived = [c for c in w.alive("derived")]
        nontrivial = any(c.mutated_after_birth for c in derived) and s.get("cmp:I2", 0) > 0
    elif prop == "C12":
        nontrivial = s.get("c12:mass-after-update", 0) > 0
    elif prop == "C17":
        nontrivial = s.get("c17:resets", 0) >= 2 and s.get("c17:mixed-fold-groups", 0) > 0
    elif prop == "C19":
        nontrivial = (
            s.get("op:restart", 0) > 0
            and s.get("load:fresh", 0) > 0
            and s.get("cmp:memo", 0) > 0
            and s.get("c19:saved-after-mutation", 0) > 0
        )
    else:
        nontrivial = False
    return {"nontrivial": nontrivial, "shape_key": _shape_key(plan)}
