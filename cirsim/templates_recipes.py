"""Template-built circuits with their *normalised* settings (C12, DESIGN.md section 5.2).

A recipe is {"kind": "template", "template": <name>, "args": {...}, "domain": [kind, k],
"states": [k_0, ..., k_{n-1}] | None}.  ``states`` lists the number of values of every variable
when all variables are discrete (used by the brute-force mass); ``domain`` is what probe
batches are drawn from (the smallest discrete domain, so that every probe is in the support of
every variable)."""

from __future__ import annotations

import random
from typing import Any

import numpy as np

from .kernel import HarnessError

Recipe = dict[str, Any]


def _param(spec: dict[str, Any] | None) -> Any:
    from cirkit.templates.utils import Parameterization

    if spec is None:
        return None
    return Parameterization(
        activation=spec.get("act", "softmax"),
        initialization=spec.get("init", "normal"),
        initialization_kwargs=dict(spec.get("init_kwargs", {})),
    )


def build_template(r: Recipe) -> Any:
    import torch

    t = r["template"]
    a = dict(r["args"])
    if t == "image_data":
        from cirkit.templates.data_modalities import image_data

        return image_data(
            tuple(a["shape"]), a["rg"], input_layer=a["input"], num_input_units=a["ni"],
            sum_product_layer=a["sp"], num_sum_units=a["ns"], num_classes=a["nc"],
            sum_weight_param=_param(a.get("sum_param")), use_mixing_weights=a["mixing"],
        )
    if t == "tabular_data":
        from cirkit.templates.data_modalities import tabular_data

        kw: dict[str, Any] = {}
        if a["rg"] == "chow-liu-tree":
            rs = np.random.RandomState(a["data_seed"])
            n = a["n"]
            k = a["input_layers"]["args"]["num_categories"]
            base = rs.randint(0, k, size=(60, 1))
            cols = [np.where(rs.uniform(size=(60, 1)) < 0.7, base, rs.randint(0, k, size=(60, 1)))
                    for _ in range(n)]
            kw["data"] = torch.from_numpy(np.concatenate(cols, axis=1)).long()
        else:
            kw["num_features"] = a["n"]
        return tabular_data(
            a["rg"], input_layers=a["input_layers"], num_input_units=a["ni"],
            sum_product_layer=a["sp"], num_sum_units=a["ns"], num_classes=a["nc"],
            sum_weight_param=_param(a.get("sum_param")), use_mixing_weights=a["mixing"], **kw,
        )
    if t == "hmm":
        from cirkit.templates.pgms import hmm

        return hmm(a["ordering"], input_layer=a["input"], num_latent_states=a["states"],
                   input_layer_kwargs=a.get("input_kwargs"), weight_param=_param(a.get("weight_param")))
    if t == "fully_factorized":
        from cirkit.templates.pgms import fully_factorized

        return fully_factorized(a["n"], input_layer=a["input"], input_layer_kwargs=a.get("input_kwargs"))
    if t == "tf_cp":
        from cirkit.templates.tensor_factorizations import cp

        return cp(tuple(a["shape"]), a["rank"], input_layer=a["input"],
                  weight_param=_param(a["weight_param"]))
    if t == "tf_tucker":
        from cirkit.templates.tensor_factorizations import tucker

        return tucker(tuple(a["shape"]), a["rank"], input_layer=a["input"],
                      core_param=_param(a["weight_param"]))
    raise HarnessError(f"unknown template {t}")


# ---------------------------------------------------------------------------
# generation


def _sum_param(rng: random.Random) -> dict[str, Any] | None:
    r = rng.random()
    if r < 0.4:
        return None  # the template's default: softmax + normal
    return {"act": "softmax", "init": rng.choice(["normal", "uniform", "normal"])}


def _units(rng: random.Random, sp: str) -> tuple[int, int]:
    if sp == "tucker":
        n = rng.randint(1, 2)
        return n, n
    ns = rng.randint(1, 3)
    ni = ns if sp == "cp-t" else rng.randint(1, 3)
    return ni, ns


def gen_template(rng: random.Random) -> Recipe:
    t = rng.choice(["image_data", "image_data", "tabular_data", "tabular_data", "hmm", "hmm",
                    "fully_factorized", "tf_cp", "tf_tucker"])
    sp = rng.choice(["cp", "cp", "cp-t", "tucker"])
    ni, ns = _units(rng, sp)
    if t == "image_data":
        shape = rng.choice([[1, 1, 2], [1, 2, 2], [1, 1, 3], [1, 2, 1], [2, 1, 2], [1, 2, 3]])
        inp = rng.choice(["categorical", "categorical", "binomial", "gaussian"])
        rg = rng.choice(["quad-tree-2", "quad-tree-4", "quad-graph", "random-binary-tree", "poon-domingos"])
        n = shape[0] * shape[1] * shape[2]
        dom = ["real", 0] if inp == "gaussian" else ["discrete", 256]
        return {"kind": "template", "template": t, "nv": n, "domain": dom, "states": None,
                "args": {"shape": shape, "rg": rg, "input": inp, "ni": ni, "sp": sp, "ns": ns,
                         "nc": rng.choice([1, 1, 2]), "sum_param": _sum_param(rng),
                         "mixing": rng.random() < 0.6}}
    if t == "tabular_data":
        n = rng.randint(2, 5)
        clt = rng.random() < 0.35
        if clt:
            k = rng.randint(2, 4)
            layers: Any = {"name": "categorical", "args": {"num_categories": k}}
            states = [k] * n
            dom = ["discrete", k]
        else:
            r = rng.random()
            if r < 0.25:
                layers = {"name": "gaussian", "args": {}}
                states = None
                dom = ["real", 0]
            elif r < 0.5:
                k = rng.randint(2, 4)
                layers = {"name": "categorical", "args": {"num_categories": k}}
                states = [k] * n
                dom = ["discrete", k]
            else:
                layers = []
                states = []
                for _ in range(n):
                    if rng.random() < 0.6:
                        k = rng.randint(2, 4)
                        layers.append({"name": "categorical", "args": {"num_categories": k}})
                        states.append(k)
                    else:
                        k = rng.randint(1, 3)
                        layers.append({"name": "binomial", "args": {"total_count": k}})
                        states.append(k + 1)
                dom = ["discrete", min(states)]
        return {"kind": "template", "template": t, "nv": n, "domain": dom, "states": states,
                "args": {"rg": "chow-liu-tree" if clt else "random-binary-tree", "n": n,
                         "data_seed": rng.randrange(10**6), "input_layers": layers, "ni": ni,
                         "sp": sp, "ns": ns, "nc": rng.choice([1, 1, 2]),
                         "sum_param": _sum_param(rng), "mixing": rng.random() < 0.6}}
    if t in ("hmm", "fully_factorized"):
        n = rng.randint(1, 5)  # single-variable models included
        inp = rng.choice(["categorical", "categorical", "binomial", "gaussian"])
        if inp == "categorical":
            if rng.random() < 0.5:
                k = rng.randint(2, 4)
                kwargs: Any = {"num_categories": k}
                states: Any = [k] * n
            else:
                states = [rng.randint(2, 4) for _ in range(n)]
                kwargs = [{"num_categories": k} for k in states]
            dom = ["discrete", min(states)]
        elif inp == "binomial":
            k = rng.randint(1, 3)
            kwargs = {"total_count": k}
            states = [k + 1] * n
            dom = ["discrete", k + 1]
        else:
            kwargs = None
            states = None
            dom = ["real", 0]
        args: dict[str, Any] = {"input": inp, "input_kwargs": kwargs}
        if t == "hmm":
            order = list(range(n))
            rng.shuffle(order)
            args.update({"ordering": order, "states": rng.randint(1, 3),
                         "weight_param": _sum_param(rng)})
            if states is not None and isinstance(kwargs, list):
                # hmm() hands the i-th kwargs to the variable at *position* i of the ordering
                # (observed; the docstring can be read either way - C20's subject, not C12's)
                by_var = [0] * n
                for i, v in enumerate(order):
                    by_var[v] = states[i]
                states = by_var
        else:
            args["n"] = n
        return {"kind": "template", "template": t, "nv": n, "domain": dom, "states": states,
                "args": args}
    # tensor factorisations with categorical / binomial factors and a softmax weight / core
    n = rng.randint(2, 4)
    inp = rng.choice(["categorical", "categorical", "binomial"])
    shape = [rng.randint(2, 4) for _ in range(n)]
    rank = rng.randint(1, 3) if t == "tf_cp" else rng.randint(1, 2)
    states = [d + 1 for d in shape] if inp == "binomial" else list(shape)
    return {"kind": "template", "template": t, "nv": n, "domain": ["discrete", min(states)],
            "states": states,
            "args": {"shape": shape, "rank": rank, "input": inp,
                     "weight_param": {"act": "softmax", "init": rng.choice(["normal", "uniform"])}}}
