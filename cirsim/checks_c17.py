"""C17 - parameter initialisation follows the symbolic initialiser regardless of folding
(DESIGN.md section 5.4).

Installed as a hook of world W-A.  After every compilation (base, derived, after a restart) and
after every reset, every symbolic tensor parameter of the circuit concerned is read back through
the compiler's registry (the slice the registry designates) and compared with what its *own*
symbolic initialiser and data type prescribe.  Random initialisers are additionally pooled over
the run (standardised values) and tested for their moments / distribution at the end."""

from __future__ import annotations

import math
from typing import Any

import numpy as np
import torch

from . import oracles
from .kernel import HarnessError, Violation, tdigest

MIN_POOL = 200
SIGMAS = 7.0
KS_P = 1e-10


def _torch_dtype(sp: Any) -> torch.dtype:
    from cirkit.symbolic.dtypes import DataType

    if sp.dtype == DataType.INTEGER:
        return torch.int64
    if sp.dtype == DataType.REAL:
        return torch.get_default_dtype()
    if sp.dtype == DataType.COMPLEX:
        return torch.get_default_dtype().to_complex()
    raise HarnessError(f"unknown symbolic dtype {sp.dtype}")


def _describe(sp: Any) -> str:
    return f"{type(sp).__name__}{tuple(sp.shape)} init={sp.initializer!r} learnable={sp.learnable}"


class C17Checker:
    def __init__(self, w: Any) -> None:
        self.w = w
        self.last: dict[int, str] = {}  # id(symbolic parameter) -> digest of its slice
        self.pool_z: dict[str, list[np.ndarray]] = {"normal": [], "uniform": [], "dirichlet": []}
        self.groups_seen: set[int] = set()

    # -- reading back ----------------------------------------------------------------

    def _slice(self, sp: Any) -> tuple[torch.Tensor, Any]:
        tp, fold_idx = oracles.registry_entry(self.w.ctx, sp)
        t = tp()
        return t[fold_idx].detach(), tp

    # -- the oracle ------------------------------------------------------------------

    def check_param(self, cname: str, sp: Any, *, drawn: bool, where: str) -> None:
        """``drawn``: the parameter has just been (re-)initialised, so its values must be a
        fresh draw of its initialiser; otherwise only shape / dtype / gradient flags are checked."""
        from cirkit.symbolic.initializers import (
            ConstantTensorInitializer,
            DirichletInitializer,
            NormalInitializer,
            UniformInitializer,
        )

        w = self.w
        try:
            val, tp = self._slice(sp)
        except HarnessError:
            raise
        except Exception as e:
            raise Violation(
                "N0",
                f"{cname}: the registry slice of {_describe(sp)} cannot be read {where}: "
                f"{type(e).__name__}: {str(e)[:120]}",
            )
        w.tr.count("c17:param-checks")
        if tuple(val.shape) != tuple(sp.shape):
            raise Violation("N1", f"{cname}: slice of {_describe(sp)} has shape {tuple(val.shape)} {where}")
        want = _torch_dtype(sp)
        if val.dtype != want:
            raise Violation("N2", f"{cname}: slice of {_describe(sp)} has dtype {val.dtype}, expected {want} {where}")
        # "non-learnable parameters do not require gradients" (the converse is not stated)
        rg = bool(tp().requires_grad)
        if rg and not bool(sp.learnable):
            raise Violation(
                "N3", f"{cname}: non-learnable {_describe(sp)} compiled to a tensor that requires gradients {where}"
            )
        if not rg and bool(sp.learnable):
            w.tr.count("c17:learnable-without-grad")
        if not drawn:
            return
        # what the circuit's author declared: from the recipe where there is one (the symbolic
        # initialiser object is shared and mutable - it is part of the code under test)
        from .hand_recipes import declared_initializer

        init = declared_initializer(sp)
        if init is None:
            init = sp.initializer
        else:
            w.tr.count("c17:declared-from-recipe")
        fin = torch.isfinite(torch.view_as_real(val) if val.is_complex() else val.to(torch.float64))
        if not bool(fin.all()):
            raise Violation("N4", f"{cname}: {_describe(sp)} holds non-finite values {where}")
        a = val.cpu().resolve_conj().numpy()
        key = id(sp)
        dig = tdigest(val)
        if isinstance(init, ConstantTensorInitializer):
            v = init.value
            if isinstance(v, np.ndarray):
                exp = np.broadcast_to(v, tuple(sp.shape))
            else:
                exp = np.full(tuple(sp.shape), v)
            exp = exp.astype(a.dtype)
            w.tr.count("c17:const-checks")
            if not np.array_equal(a, exp):
                bad = int((a != exp).sum())
                raise Violation(
                    "N5",
                    f"{cname}: {_describe(sp)} is not reproduced exactly in its slice "
                    f"({bad} of {a.size} entries differ) {where}",
                )
        elif isinstance(init, UniformInitializer):
            w.tr.count("c17:uniform-checks")
            parts = [a.real, a.imag] if np.iscomplexobj(a) else [a]
            # in single precision the bounds themselves are rounded
            slack = 1e-6 * (abs(init.a) + abs(init.b) + 1.0) if a.dtype in (np.float32, np.complex64) else 0.0
            for part in parts:
                if part.min() < init.a - slack or part.max() > init.b + slack:
                    raise Violation(
                        "N6",
                        f"{cname}: {_describe(sp)} holds values in [{part.min():.4g}, {part.max():.4g}] "
                        f"outside [{init.a}, {init.b}] {where}",
                    )
            if not np.iscomplexobj(a):
                self.pool_z["uniform"].append(((a - init.a) / (init.b - init.a)).reshape(-1))
        elif isinstance(init, NormalInitializer):
            w.tr.count("c17:normal-checks")
            if not np.iscomplexobj(a):
                self.pool_z["normal"].append(((a - init.mean) / init.stddev).reshape(-1))
        elif isinstance(init, DirichletInitializer):
            w.tr.count("c17:dirichlet-checks")
            if np.iscomplexobj(a):
                raise Violation("N7", f"{cname}: Dirichlet sample is complex {where}")
            ax = init.axis if init.axis >= 0 else init.axis + len(sp.shape)
            if a.min() < 0.0:
                raise Violation("N7", f"{cname}: {_describe(sp)} has negative entries {where}")
            s = a.sum(axis=ax)
            if np.abs(s - 1.0).max() > (1e-5 if a.dtype == np.float32 else 1e-9):
                raise Violation(
                    "N7",
                    f"{cname}: {_describe(sp)} does not sum to one along its declared axis {init.axis} "
                    f"(sums in [{s.min():.4g}, {s.max():.4g}]) {where}",
                )
            n = sp.shape[ax]
            if n >= 2:
                from scipy import stats

                alpha = np.array(init.alpha if isinstance(init.alpha, list) else [init.alpha] * n, dtype=float)
                a0 = alpha.sum()
                shp = [1] * len(sp.shape)
                shp[ax] = n
                # each component is marginally Beta(alpha_i, alpha_0 - alpha_i): its probability
                # integral transform is uniform on [0, 1] (bounded, symmetric: the pooled tests
                # below are then well-behaved); one component per vector is determined by the
                # others and is dropped
                u = stats.beta.cdf(a, alpha.reshape(shp), (a0 - alpha).reshape(shp))
                u = np.delete(u, 0, axis=ax)
                self.pool_z["dirichlet"].append(u.reshape(-1))
        else:
            w.tr.count("c17:unknown-initializer")
        # a non-degenerate random initialiser must give a new draw at every (re-)initialisation
        if not isinstance(init, ConstantTensorInitializer):
            degenerate = a.size < 2 or (
                isinstance(init, DirichletInitializer)
                and sp.shape[init.axis if init.axis >= 0 else init.axis + len(sp.shape)] < 2
            )
            prev = self.last.get(key)
            if prev is not None and not degenerate:
                w.tr.count("c17:redraw-checks")
                if prev == dig:
                    raise Violation(
                        "N8",
                        f"{cname}: {_describe(sp)} holds exactly the values it held before the "
                        f"re-initialisation {where}",
                    )
        self.last[key] = dig

    def check_circuit(self, c: Any, *, drawn: bool, where: str) -> None:
        for sp in c.tparams:
            self.check_param(c.name, sp, drawn=drawn, where=where)
        self._count_groups(c)

    def _count_groups(self, c: Any) -> None:
        groups: dict[int, list[Any]] = {}
        for sp in c.tparams:
            try:
                tp, _ = oracles.registry_entry(self.w.ctx, sp)
            except Exception:
                continue
            groups.setdefault(id(tp), []).append(sp)
        for gid, sps in groups.items():
            if gid in self.groups_seen or len(sps) < 2:
                continue
            self.groups_seen.add(gid)
            self.w.tr.count("c17:fold-groups")
            if len({repr(sp.initializer) for sp in sps}) >= 2:
                self.w.tr.count("c17:mixed-fold-groups")

    def track(self) -> None:
        """Remember the current value of every tracked parameter (after any operation)."""
        for c in self.w.alive():
            for sp in c.tparams:
                try:
                    val, _ = self._slice(sp)
                except Exception:
                    continue
                self.last[id(sp)] = tdigest(val)

    # -- pooled distribution tests at the end of the run --------------------------------

    def final(self) -> None:
        """Pooled distribution tests; every alarm threshold is a p-value below 1e-10 (or 7 sigma
        for bounded, nearly symmetric statistics)."""
        from scipy import stats

        w = self.w
        for kind, chunks in self.pool_z.items():
            if not chunks:
                continue
            z = np.concatenate(chunks)
            n = z.size
            if n < MIN_POOL:
                continue
            w.tr.count(f"c17:moment-tests:{kind}")
            if kind == "normal":
                # exact under the null: sqrt(n) * mean ~ N(0,1), sum z^2 ~ chi2(n)
                pm = 2.0 * float(stats.norm.sf(abs(float(z.mean())) * math.sqrt(n)))
                q = float((z * z).sum())
                pv = 2.0 * min(float(stats.chi2.cdf(q, n)), float(stats.chi2.sf(q, n)))
                if pm < KS_P:
                    raise Violation(
                        "N9", f"normal initialisers: pooled standardised mean {z.mean():.4f} over {n} "
                              f"entries (p={pm:.2e})")
                if pv < KS_P:
                    raise Violation(
                        "N9", f"normal initialisers: pooled standardised variance {q / n:.4f} over {n} "
                              f"entries (p={pv:.2e})")
            else:
                # uniform on [0,1] (Dirichlet: after the probability integral transform; its
                # entries are negatively dependent, which only shrinks the spread of the means)
                zm = float(z.mean())
                zv = float(((z - 0.5) ** 2).mean())
                if abs(zm - 0.5) > SIGMAS * math.sqrt(1.0 / (12.0 * n)):
                    raise Violation(
                        "N9", f"{kind} initialisers: pooled mean of the values mapped to [0,1] is "
                              f"{zm:.4f} over {n} entries, more than {SIGMAS} sigma from 0.5")
                if abs(zv - 1.0 / 12.0) > SIGMAS * math.sqrt(1.0 / (180.0 * n)):
                    raise Violation(
                        "N9", f"{kind} initialisers: pooled variance of the values mapped to [0,1] is "
                              f"{zv:.4f} over {n} entries, more than {SIGMAS} sigma from 1/12")
            if kind in ("normal", "uniform"):
                dist = "norm" if kind == "normal" else "uniform"
                p = float(stats.kstest(z, dist).pvalue)
                w.tr.count(f"c17:ks-tests:{kind}")
                if p < KS_P:
                    raise Violation(
                        "N9", f"{kind} initialisers: Kolmogorov-Smirnov p={p:.3e} over {n} pooled entries"
                    )


def install(w: Any) -> None:
    chk = C17Checker(w)
    w.c17 = chk

    def hook(world: Any, op: dict[str, Any], info: dict[str, Any]) -> None:
        kind = op["op"]
        if info.get("final"):
            for c in world.alive():
                chk.check_circuit(c, drawn=False, where="at the end of the run")
            chk.final()
            return
        if kind == "restart":
            for c in world.alive():
                chk.check_circuit(c, drawn=True, where=f"after recompilation in a new process (step {world.tr.step})")
        if "reset" in info:
            c = info["reset"]
            world.tr.count("c17:resets")
            chk.check_circuit(c, drawn=True, where=f"after a reset of {c.name} (step {world.tr.step})")
        chk.track()

    def on_reset(c: Any, j: int) -> None:
        w.tr.count("c17:resets")
        chk.check_circuit(c, drawn=True, where=f"after reset #{j + 1} of a burst on {c.name} (step {w.tr.step})")

    def on_compiled(c: Any) -> None:
        # straight after compilation, whether or not the circuit can be evaluated afterwards
        chk.check_circuit(c, drawn=True, where=f"after compilation (step {w.tr.step})")

    def on_compile_error(c: Any, e: BaseException) -> None:
        # The symbolic initialisers accepted the parameter shapes at construction, so allocating
        # and initialising the tensors must not raise - whatever the folding.  Attribution: the
        # exception passed through a reset_parameters() frame of the code under test.
        import traceback

        frames = traceback.extract_tb(e.__traceback__)
        if any(f.name == "reset_parameters" for f in frames):
            inner = frames[-1]
            raise Violation(
                "N10",
                f"{c.name}: allocating / initialising the parameters raised {type(e).__name__}: "
                f"{str(e)[:120]} (in {inner.name}) during compilation with fold={w.fold} "
                f"optimize={w.optimize}",
            )

    w.hooks.append(hook)
    w.on_reset.append(on_reset)
    w.on_compiled.append(on_compiled)
    w.on_compile_error.append(on_compile_error)
