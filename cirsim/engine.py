"""execute(plan): one exactly repeatable simulated run of the real cirkit code."""

from __future__ import annotations

import traceback
from typing import Any

from .kernel import HarnessError, RunResult, Trace, Violation, is_resource_failure
from .seams import simulation

WORLD_A = {"C10", "C12", "C17", "C19"}


def generate(prop: str, run_seed: int, tier: str) -> dict[str, Any]:
    if prop in WORLD_A:
        from . import gen_a

        return gen_a.generate(prop, run_seed, tier)
    if prop == "C18":
        from . import world_b

        return world_b.generate(run_seed, tier)
    if prop == "C15":
        from . import world_c

        return world_c.generate(run_seed, tier)
    raise HarnessError(f"no generator for {prop}")


def warmup() -> None:
    """Import everything a run needs (so that no run pays for it) and check the seams exist."""
    import scipy.stats  # noqa: F401
    import torch  # noqa: F401

    import cirkit.pipeline  # noqa: F401
    import cirkit.symbolic.functional  # noqa: F401
    import cirkit.templates.region_graph  # noqa: F401
    from cirkit.backend.torch import compiler, queries  # noqa: F401

    with simulation(0):
        pass


def _run_world(plan: dict[str, Any], tr: Trace) -> Any:
    prop = plan["prop"]
    if prop in WORLD_A:
        from . import props_a

        return props_a.run(plan, tr)
    if prop == "C18":
        from . import world_b

        return world_b.run(plan, tr)
    if prop == "C15":
        from . import world_c

        return world_c.run(plan, tr)
    raise HarnessError(f"no world for {prop}")


def execute(plan: dict[str, Any], *, keep_events: bool = False) -> RunResult:
    res = RunResult()
    tr = Trace()
    from . import oracles

    oracles.GRAD_MODE = "no_grad"  # process-global switch of the harness: every run starts equal
    try:
        with simulation(plan["hash_seed"]):
            summary = _run_world(plan, tr)
        res.nontrivial = bool(summary.get("nontrivial", False))
        res.shape_key = str(summary.get("shape_key", ""))
    except Violation as v:
        if is_resource_failure(v.msg):
            # an allocation failed under RLIMIT_AS somewhere below an oracle: no verdict for
            # this run (counted and reported in the evidence), never a violation
            tr.count("skipped:resource")
            tr.ev("SKIPPED", "resource", v.inv)
        else:
            res.violation = {"inv": v.inv, "step": tr.step, "msg": v.msg}
            tr.ev("VIOLATION", v.inv, v.msg)
    except HarnessError as e:
        res.harness_error = f"HarnessError: {e}"
    except MemoryError:
        tr.count("skipped:resource")
        tr.ev("SKIPPED", "resource", "MemoryError")
    except Exception as e:  # a bug in the harness, never a violation
        if is_resource_failure(f"{type(e).__name__}: {e}"):
            tr.count("skipped:resource")
            tr.ev("SKIPPED", "resource", type(e).__name__)
        else:
            res.harness_error = f"{type(e).__name__}: {e}\n" + traceback.format_exc(limit=8)
    res.digest = tr.digest()
    res.stats = dict(tr.stats)
    res.steps = max(tr.step, 0)
    if keep_events:
        res.events = list(tr.events)
    return res
