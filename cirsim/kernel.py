"""Simulation kernel: seeds, plans, traces, comparison rules.

One integer decides everything:  run_seed = H(VERIF_SEED, property, run index).
A *plan* is plain JSON data produced by a generator from ``random.Random(run_seed)``;
``execute(plan)`` is a pure function of the plan and of the code under /repo.  Nothing
in this module (nor in any logging path) draws from a PRNG or reads a clock.
"""

from __future__ import annotations

import hashlib
import json
import math
import random
from collections import Counter
from typing import Any

import numpy as np
import torch

MASK63 = (1 << 63) - 1


def H(*parts: Any) -> int:
    """Stable 63-bit hash of the parts (independent of PYTHONHASHSEED)."""
    s = json.dumps(parts, sort_keys=True, default=str)
    return int.from_bytes(hashlib.sha256(s.encode()).digest()[:8], "big") & MASK63


def rng_for(*parts: Any) -> random.Random:
    return random.Random(H(*parts))


class SimFault(Exception):
    """The exception the simulator injects at a seam crossing."""


class HarnessError(Exception):
    """Something is wrong with the harness or with its assumptions about the tree
    under test (a missing seam, an API the harness depends on).  Never a violation."""


def is_resource_failure(text: str) -> bool:
    """Out-of-memory under the worker's address-space limit: depends on what the process did
    before, so it is neither repeatable nor a statement about cirkit."""
    return ("MemoryError" in text or "allocate memory" in text or "std::bad_alloc" in text
            or "out of memory" in text.lower())


class Violation(Exception):
    """A property violation found by an oracle."""

    def __init__(self, inv: str, msg: str, **detail: Any) -> None:
        super().__init__(f"{inv}: {msg}")
        self.inv = inv
        self.msg = msg
        self.detail = detail


def tdigest(t: torch.Tensor | np.ndarray | None) -> str:
    """Short digest of a tensor's bytes (shape and dtype included)."""
    if t is None:
        return "none"
    if isinstance(t, torch.Tensor):
        t = t.detach().cpu()
        if t.is_complex():
            t = torch.view_as_real(t.resolve_conj())
        a = t.contiguous().numpy()
    else:
        a = np.ascontiguousarray(t)
    h = hashlib.sha256()
    h.update(str(a.dtype).encode())
    h.update(str(a.shape).encode())
    h.update(a.tobytes())
    return h.hexdigest()[:16]


class Trace:
    """Event log of one run.  The digest of the log is what determinism self-tests
    compare; the log itself is what a replay prints."""

    def __init__(self) -> None:
        self.events: list[str] = []
        self.stats: Counter[str] = Counter()
        self.step = -1

    def ev(self, kind: str, *fields: Any) -> None:
        self.events.append(f"{self.step}:{kind}:" + ":".join(str(f) for f in fields))

    def count(self, key: str, n: int = 1) -> None:
        self.stats[key] += n

    def digest(self) -> str:
        h = hashlib.sha256()
        for e in self.events:
            h.update(e.encode())
            h.update(b"\n")
        return h.hexdigest()[:24]


class RunResult:
    def __init__(self) -> None:
        self.violation: dict[str, Any] | None = None
        self.harness_error: str | None = None
        self.digest = ""
        self.stats: dict[str, int] = {}
        self.steps = 0
        self.nontrivial = False
        self.shape_key = ""  # what makes the run *distinct* (per-property rule)
        self.events: list[str] = []

    def to_json(self, with_events: bool = False) -> dict[str, Any]:
        d = {
            "violation": self.violation,
            "harness_error": self.harness_error,
            "digest": self.digest,
            "stats": self.stats,
            "steps": self.steps,
            "nontrivial": self.nontrivial,
            "shape_key": self.shape_key,
        }
        if with_events:
            d["events"] = self.events
        return d


# ---------------------------------------------------------------------------
# comparison rules (DESIGN.md section 4)

REL = 1e-7
ABS = 1e-10
LOG_ABS = 1e-7


def _to_np(t: torch.Tensor) -> np.ndarray:
    return t.detach().cpu().resolve_conj().numpy()


def compare_outputs(
    a: torch.Tensor, b: torch.Tensor, semiring: str, *, rel: float = REL, logabs: float = LOG_ABS
) -> tuple[str, float]:
    """Compare circuit outputs ``a`` (system) and ``b`` (reference).

    Returns (verdict, magnitude): verdict in {"ok", "undefined", "shape", "nan", "mask", "diff"}.
    "undefined": both sides NaN at the same positions (and equal elsewhere).
    """
    if tuple(a.shape) != tuple(b.shape):
        return "shape", float("nan")
    x = _to_np(a)
    y = _to_np(b)
    if semiring == "complex-lse-sum":
        with np.errstate(all="ignore"):
            x = np.exp(x)
            y = np.exp(y)
        semiring = "sum-product"
    nx = np.isnan(x)
    ny = np.isnan(y)
    if (nx != ny).any():
        return "nan", float("nan")
    verdict = "undefined" if nx.any() else "ok"
    good = ~nx
    if not good.any():
        return verdict, 0.0
    x = x[good]
    y = y[good]
    if semiring == "lse-sum":
        fx = np.isfinite(x)
        fy = np.isfinite(y)
        if (fx != fy).any():
            return "mask", float("nan")
        if (~fx).any():
            # infinities must have the same sign
            if (np.sign(x[~fx]) != np.sign(y[~fx])).any():
                return "mask", float("nan")
        if fx.any():
            d = float(np.max(np.abs(x[fx] - y[fx])))
            # log-space: absolute tolerance, scaled mildly by magnitude for huge |log|
            tol = logabs * max(1.0, float(np.max(np.abs(y[fx]))) * 1e-3)
            if d > tol:
                return "diff", d
            return verdict, d
        return verdict, 0.0
    # linear space
    fx = np.isfinite(x)
    fy = np.isfinite(y)
    if (fx != fy).any():
        return "mask", float("nan")
    if not fx.any():
        return verdict, 0.0
    x = x[fx]
    y = y[fx]
    scale = float(np.max(np.abs(y)))
    d = float(np.max(np.abs(x - y)))
    if d > rel * scale + ABS:
        return "diff", d
    return verdict, d


def finite(t: torch.Tensor) -> bool:
    return bool(torch.isfinite(torch.view_as_real(t) if t.is_complex() else t).all())


def jround(x: float, nd: int = 6) -> float:
    if isinstance(x, float) and (math.isnan(x) or math.isinf(x)):
        return x
    return round(float(x), nd)
